# sourced by every script: offline Go environment; VERIF is the directory this file lives under
export GOFLAGS=-mod=mod GOPROXY=off GOSUMDB=off GOTOOLCHAIN=local
export GO=go1.26.8
export VERIF=${VERIF_ROOT:-$(cd "$(dirname "${BASH_SOURCE[0]}")/.." && pwd)}
export REPO=${REPO:-/repo}
export WORK=$VERIF/.work
