# sourced by every script: offline Go environment
export GOFLAGS=-mod=mod GOPROXY=off GOSUMDB=off GOTOOLCHAIN=local
export GO=go1.26.8
export VERIF=${VERIF:-/verif}
export REPO=${REPO:-/repo}
export WORK=$VERIF/.work
