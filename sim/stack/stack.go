// Package stack builds a rend deployment inside a simulated world the way
// app/memproxy.go does: real ListenAndServe accept loops, real protocol
// components, real orchestrators (optionally under the real locking wrapper
// sharing one lock set between the two ports) and the real handler constructors,
// with only the listeners and socket addresses simulated.
package stack

import (
	"fmt"

	"github.com/netflix/rend/handlers"
	"github.com/netflix/rend/handlers/inmem"
	"github.com/netflix/rend/handlers/memcached"
	"github.com/netflix/rend/handlers/memcached/batched"
	"github.com/netflix/rend/orcas"
	"github.com/netflix/rend/protocol"
	"github.com/netflix/rend/protocol/binprot"
	"github.com/netflix/rend/protocol/textprot"
	"github.com/netflix/rend/server"

	"rendsim/kernel"
)

// Cfg selects the deployment.
type Cfg struct {
	Shape       string `json:"shape"` // l1only | l1l2 | l1l2batch (main port L1L2 + batch port L1L2Batch)
	L1          string `json:"l1"`    // std | chunked | batched | inmem
	L2          string `json:"l2,omitempty"`
	Locked      bool   `json:"locked,omitempty"`
	MultiReader bool   `json:"multi_reader,omitempty"`
	Concurrency uint8  `json:"concurrency,omitempty"`
	// batched pool options (0 = rend defaults)
	BatchSize        uint32 `json:"batch_size,omitempty"`
	BatchDelayMicros uint32 `json:"batch_delay_us,omitempty"`
	BatchEvalSec     uint32 `json:"batch_eval_s,omitempty"` // pool monitor interval (rend default 2 s)
	GetEAbsolute     bool   `json:"gete_abs"`
}

func (c Cfg) String() string {
	s := fmt.Sprintf("%s/l1=%s", c.Shape, c.L1)
	if c.Shape != "l1only" {
		s += "/l2=" + c.L2
	}
	if c.Locked {
		s += fmt.Sprintf("/locked(mr=%v,c=%d)", c.MultiReader, c.Concurrency)
	}
	return s
}

// HasL2 reports whether the deployment has a second tier.
func (c Cfg) HasL2() bool { return c.Shape != "l1only" }

// Wrappers lets a property decorate the pieces (fault decorators, recording orca).
type Wrappers struct {
	H1   func(handlers.HandlerConst) handlers.HandlerConst
	H2   func(handlers.HandlerConst) handlers.HandlerConst
	Orca func(port string, oc orcas.OrcaConst) orcas.OrcaConst
	Prot func([]protocol.Components) []protocol.Components
}

// Deployment is a running simulated rend.
type Deployment struct {
	Cfg  Cfg
	W    *kernel.World
	L1   *kernel.Tier
	L2   *kernel.Tier
	Slot uint32
}

func handlerConst(kind, addr string, cfg Cfg) handlers.HandlerConst {
	switch kind {
	case "std":
		return memcached.Regular(addr)
	case "chunked":
		return memcached.Chunked(addr)
	case "batched":
		return memcached.Batched(addr, batched.Opts{BatchSize: cfg.BatchSize, BatchDelayMicros: cfg.BatchDelayMicros, EvaluationIntervalSec: cfg.BatchEvalSec})
	case "inmem":
		return inmem.New
	}
	panic("stack: unknown handler kind " + kind)
}

// Build starts the deployment. It must be called inside the bubble; the accept
// loops are real rend goroutines.
func Build(w *kernel.World, cfg Cfg, wr *Wrappers) *Deployment {
	d := &Deployment{Cfg: cfg, W: w}
	uniq := fmt.Sprintf("/sim/run%d/", w.Run.ID)
	d.L1 = w.AddTier("l1", uniq+"l1.sock")
	d.L1.Fake.GetEAbsolute = cfg.GetEAbsolute
	h1 := handlerConst(cfg.L1, d.L1.Addr, cfg)
	var h2 handlers.HandlerConst = handlers.NilHandler
	var o orcas.OrcaConst = orcas.L1Only
	if cfg.HasL2() {
		d.L2 = w.AddTier("l2", uniq+"l2.sock")
		d.L2.Fake.GetEAbsolute = cfg.GetEAbsolute
		h2 = handlerConst(cfg.L2, d.L2.Addr, cfg)
		o = orcas.L1L2
	}
	if wr != nil && wr.H1 != nil {
		h1 = wr.H1(h1)
	}
	if wr != nil && wr.H2 != nil {
		h2 = wr.H2(h2)
	}
	protocols := []protocol.Components{binprot.Components, textprot.Components}
	if wr != nil && wr.Prot != nil {
		protocols = wr.Prot(protocols)
	}
	if wr != nil && wr.Orca != nil {
		o = wr.Orca("main", o)
	}
	if cfg.Locked {
		mr := cfg.MultiReader
		if cfg.L1 == "chunked" {
			mr = false
		}
		o, d.Slot = lockedConst(o, mr, cfg.Concurrency)
	}
	lm := w.AddListener("main")
	go server.ListenAndServe(func() (server.Listener, error) { return lm, nil }, protocols, server.Default, o, h1, h2)
	if cfg.Shape == "l1l2batch" {
		var ob orcas.OrcaConst = orcas.L1L2Batch
		if wr != nil && wr.Orca != nil {
			ob = wr.Orca("batch", ob)
		}
		if cfg.Locked {
			// another service's lock set comes into being between the two calls (rend allows
			// several lock sets per process): the batch port must still get the one it names
			lockedConst(orcas.L1Only, false, 3)
			ob = orcas.LockedWithExisting(ob, d.Slot)
		}
		lb := w.AddListener("batch")
		go server.ListenAndServe(func() (server.Listener, error) { return lb, nil }, protocols, server.Default, ob, h1, h2)
	}
	return d
}

// rend allows 1024 lock sets per process (orcas.maxLockSets) and never frees one. A
// worker process executes many runs, so after lockSetBudget genuine orcas.Locked
// calls the lock sets created so far are reused through the equally public
// orcas.LockedWithExisting (the lock objects' simulated state is per run).
const lockSetBudget = 900

var (
	lockSetsMade  int
	lockSetByKind = map[[2]int]uint32{}
)

func lockedConst(o orcas.OrcaConst, multiReader bool, concurrency uint8) (orcas.OrcaConst, uint32) {
	kind := [2]int{0, int(concurrency)}
	if multiReader {
		kind[0] = 1
	}
	if lockSetsMade < lockSetBudget {
		lockSetsMade++
		oc, slot := orcas.Locked(o, multiReader, concurrency)
		lockSetByKind[kind] = slot
		return oc, slot
	}
	slot, ok := lockSetByKind[kind]
	if !ok {
		lockSetsMade++
		var oc orcas.OrcaConst
		oc, slot = orcas.Locked(o, multiReader, concurrency)
		lockSetByKind[kind] = slot
		return oc, slot
	}
	return orcas.LockedWithExisting(o, slot), slot
}
