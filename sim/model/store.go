// Package model is the reference "single memcached-like map": the semantics of
// memcached's storage commands and expiry rules, written from the protocol
// documentation. It is used twice: as the state of each simulated backend
// (mcfake) and as the oracle the client-visible behaviour is compared with.
package model

import "sort"

// ThirtyDays is memcached's REALTIME_MAXDELTA: larger exptimes are absolute.
const ThirtyDays = 60 * 60 * 24 * 30

// Entry is one stored item.
type Entry struct {
	Value    []byte
	Flags    uint32
	Deadline int64 // unix seconds; 0 = never expires
	Writer   int   // provenance tag chosen by whoever stored it (optional)
}

// Store is a memcached-like map with expiry. Now must return unix seconds.
type Store struct {
	M   map[string]*Entry
	Now func() int64
}

func NewStore(now func() int64) *Store { return &Store{M: map[string]*Entry{}, Now: now} }

// Outcome of a storage command.
type Outcome int

const (
	OK Outcome = iota
	NotFound
	Exists
	NotStored
)

func (o Outcome) String() string {
	return [...]string{"OK", "NotFound", "Exists", "NotStored"}[o]
}

// DeadlineFor converts a protocol exptime into an absolute deadline.
// The boolean is true when the item is already expired on arrival.
func DeadlineFor(exptime uint32, now int64) (deadline int64, dead bool) {
	if exptime == 0 {
		return 0, false
	}
	if exptime > ThirtyDays {
		d := int64(exptime)
		return d, d <= now
	}
	return now + int64(exptime), false
}

func (s *Store) live(k string) *Entry {
	e, ok := s.M[k]
	if !ok {
		return nil
	}
	if e.Deadline != 0 && e.Deadline <= s.Now() {
		delete(s.M, k)
		return nil
	}
	return e
}

// Peek returns the live entry or nil, without side effects visible to clients.
func (s *Store) Peek(k string) *Entry { return s.live(k) }

func (s *Store) put(k string, v []byte, flags uint32, exptime uint32) {
	d, dead := DeadlineFor(exptime, s.Now())
	if dead {
		delete(s.M, k)
		return
	}
	s.M[k] = &Entry{Value: append([]byte(nil), v...), Flags: flags, Deadline: d}
}

func (s *Store) Set(k string, v []byte, flags, exptime uint32) Outcome {
	s.put(k, v, flags, exptime)
	return OK
}

func (s *Store) Add(k string, v []byte, flags, exptime uint32) Outcome {
	if s.live(k) != nil {
		return Exists
	}
	s.put(k, v, flags, exptime)
	return OK
}

func (s *Store) Replace(k string, v []byte, flags, exptime uint32) Outcome {
	if s.live(k) == nil {
		return NotFound
	}
	s.put(k, v, flags, exptime)
	return OK
}

func (s *Store) Append(k string, v []byte) Outcome {
	e := s.live(k)
	if e == nil {
		return NotStored
	}
	e.Value = append(append([]byte(nil), e.Value...), v...)
	return OK
}

func (s *Store) Prepend(k string, v []byte) Outcome {
	e := s.live(k)
	if e == nil {
		return NotStored
	}
	e.Value = append(append([]byte(nil), v...), e.Value...)
	return OK
}

func (s *Store) Delete(k string) Outcome {
	if s.live(k) == nil {
		return NotFound
	}
	delete(s.M, k)
	return OK
}

func (s *Store) Touch(k string, exptime uint32) Outcome {
	e := s.live(k)
	if e == nil {
		return NotFound
	}
	d, dead := DeadlineFor(exptime, s.Now())
	if dead {
		delete(s.M, k)
		return OK
	}
	e.Deadline = d
	return OK
}

// Get returns the live entry (nil on a miss).
func (s *Store) Get(k string) *Entry { return s.live(k) }

// Gat is get-and-touch: returns the entry as it was and updates its deadline.
func (s *Store) Gat(k string, exptime uint32) *Entry {
	e := s.live(k)
	if e == nil {
		return nil
	}
	cp := *e
	d, dead := DeadlineFor(exptime, s.Now())
	if dead {
		delete(s.M, k)
	} else {
		e.Deadline = d
	}
	return &cp
}

// Evict removes a key without any protocol-visible trace (LRU eviction).
func (s *Store) Evict(k string) { delete(s.M, k) }

// LiveKeys returns the keys of all live entries, sorted.
func (s *Store) LiveKeys() []string {
	var ks []string
	for k := range s.M {
		if s.live(k) != nil {
			ks = append(ks, k)
		}
	}
	sort.Strings(ks)
	return ks
}

// Clone copies the store (sharing the clock).
func (s *Store) Clone() *Store {
	n := NewStore(s.Now)
	for k, e := range s.M {
		cp := *e
		cp.Value = append([]byte(nil), e.Value...)
		n.M[k] = &cp
	}
	return n
}
