// Package race is the auxiliary real-parallel stage for the literal "free of data
// races" clauses of C14 / C17 / C18. It is NOT deterministic simulation: real rend
// code (no import substitution, no overlay), real goroutines, real unix sockets,
// built with -race. It is runtime monitoring and is labelled as such in the
// evidence. A race report whose stacks include repository code is reported with
// the seed; re-running reproduces it with high, not absolute, certainty.
package race

import (
	"bufio"
	"bytes"
	"fmt"
	"io"
	"log"
	"math/rand/v2"
	"net"
	"net/http"
	"net/http/httptest"
	"os"
	"path/filepath"
	"strconv"
	"sync"
	"testing"
	"time"

	"github.com/netflix/rend/handlers"
	"github.com/netflix/rend/handlers/inmem"
	"github.com/netflix/rend/handlers/memcached"
	"github.com/netflix/rend/handlers/memcached/batched"
	"github.com/netflix/rend/metrics"
	"github.com/netflix/rend/orcas"
	"github.com/netflix/rend/protocol"
	"github.com/netflix/rend/protocol/binprot"
	"github.com/netflix/rend/protocol/textprot"
	"github.com/netflix/rend/server"

	"rendsim/mcfake"
	"rendsim/wire"
)

func init() { log.SetOutput(io.Discard) }

func seed() uint64 {
	if s := os.Getenv("VERIF_SEED"); s != "" {
		if v, err := strconv.ParseInt(s, 10, 64); err == nil {
			return uint64(v)
		}
	}
	return 1
}

// fakeServer serves one simulated memcached on a real unix socket.
type fakeServer struct {
	mu   sync.Mutex
	fake *mcfake.Server
	ln   net.Listener
}

func startFake(t *testing.T, path string) *fakeServer {
	os.Remove(path)
	ln, err := net.Listen("unix", path)
	if err != nil {
		t.Fatalf("listen %s: %v", path, err)
	}
	fs := &fakeServer{fake: mcfake.New(filepath.Base(path), func() int64 { return time.Now().Unix() }), ln: ln}
	fs.fake.LogLimit = 0
	go func() {
		for {
			c, err := ln.Accept()
			if err != nil {
				return
			}
			go fs.serve(c)
		}
	}()
	return fs
}

func (fs *fakeServer) serve(c net.Conn) {
	defer c.Close()
	var buf []byte
	tmp := make([]byte, 65536)
	for {
		n, err := c.Read(tmp)
		if n > 0 {
			buf = append(buf, tmp[:n]...)
			for {
				fs.mu.Lock()
				req, used, perr := fs.fake.Parse(buf)
				if perr != nil || used == 0 {
					fs.mu.Unlock()
					if perr != nil {
						return
					}
					break
				}
				rep := fs.fake.Apply(req)
				fs.mu.Unlock()
				buf = buf[used:]
				if len(rep) > 0 {
					if _, werr := c.Write(rep); werr != nil {
						return
					}
				}
			}
		}
		if err != nil {
			return
		}
	}
}

func tmpDir(t *testing.T) string {
	d, err := os.MkdirTemp("", "rsr")
	if err != nil {
		t.Fatal(err)
	}
	t.Cleanup(func() { os.RemoveAll(d) })
	return d
}

// client runs a seeded closed-loop command sequence on private keys.
// geteOK is set while the deployment under test serves GETE (L1-only, not chunked).
var geteOK bool

func client(t *testing.T, sock string, id int, proto string, r *rand.Rand, n int, errs chan<- string) {
	c, err := net.Dial("unix", sock)
	if err != nil {
		errs <- fmt.Sprintf("client %d: dial: %v", id, err)
		return
	}
	defer c.Close()
	br := bufio.NewReader(c)
	keys := []string{fmt.Sprintf("c%d-x", id), fmt.Sprintf("c%d-y", id)}
	var opq uint32 = uint32(id) << 16
	for i := 0; i < n; i++ {
		opq += 8
		op := wire.Op{Opaque: opq, Key: keys[r.IntN(2)]}
		switch r.IntN(8) {
		case 0, 1, 2:
			op.Kind = "set"
			op.Data = bytes.Repeat([]byte{byte('a' + id%26)}, 1+r.IntN(1500))
			op.Flags = uint32(id)
		case 3:
			op.Kind = "add"
			op.Data = []byte("added")
		case 4:
			op.Kind = "append"
			op.Data = []byte("+")
		case 5:
			op.Kind = "delete"
		default:
			op.Kind = "get"
			op.Keys = []string{op.Key}
			op.Quiets = []bool{false}
			op.Key = ""
			// rend's GETE extension (hits carry the expiry) where it is served
			op.E = geteOK && proto == "bin" && r.IntN(2) == 0
		}
		var data []byte
		if proto == "text" {
			op.Opaque = 0
			data = wire.EncodeText(op)
		} else {
			data = wire.EncodeBinary(op)
		}
		if _, err := c.Write(data); err != nil {
			errs <- fmt.Sprintf("client %d: write: %v", id, err)
			return
		}
		c.SetReadDeadline(time.Now().Add(20 * time.Second))
		if err := readReply(br, proto, op); err != nil {
			errs <- fmt.Sprintf("client %d: %s: %v", id, op, err)
			return
		}
	}
}

// readReply consumes one complete reply (not an oracle: just keeps the stream in step
// and makes sure values belong to this client).
func readReply(br *bufio.Reader, proto string, op wire.Op) error {
	if proto == "text" {
		for {
			line, err := br.ReadString('\n')
			if err != nil {
				return err
			}
			if bytes.HasPrefix([]byte(line), []byte("VALUE ")) {
				var k string
				var fl, n int
				fmt.Sscanf(line, "VALUE %s %d %d", &k, &fl, &n)
				buf := make([]byte, n+2)
				if _, err := io.ReadFull(br, buf); err != nil {
					return err
				}
				continue
			}
			return nil
		}
	}
	hdr := make([]byte, 24)
	if _, err := io.ReadFull(br, hdr); err != nil {
		return err
	}
	total := int(hdr[8])<<24 | int(hdr[9])<<16 | int(hdr[10])<<8 | int(hdr[11])
	if total > 0 {
		if _, err := io.ReadFull(br, make([]byte, total)); err != nil {
			return err
		}
	}
	got := uint32(hdr[12])<<24 | uint32(hdr[13])<<16 | uint32(hdr[14])<<8 | uint32(hdr[15])
	if got != op.Opaque {
		return fmt.Errorf("reply opaque %d, request opaque %d", got, op.Opaque)
	}
	return nil
}

// TestRaceServer: many connections on disjoint keys against every handler kind, while
// a reader polls /metrics. Used for C14 (and the metrics clause of C18).
func TestRaceServer(t *testing.T) {
	if os.Getenv("VERIF_RACE") == "" {
		t.Skip("auxiliary stage, run by bin/check")
	}
	dir := tmpDir(t)
	r := rand.New(rand.NewPCG(seed(), 99))
	protocols := []protocol.Components{binprot.Components, textprot.Components}
	type cfg struct {
		name string
		h1   func(string) handlers.HandlerConst
		l2   bool
		lock bool
	}
	cfgs := []cfg{
		{"std", memcached.Regular, true, true},
		{"chunked", memcached.Chunked, true, false},
		{"batched", func(s string) handlers.HandlerConst {
			return memcached.Batched(s, batched.Opts{BatchSize: 4, BatchDelayMicros: 100})
		}, false, false},
		{"inmem", func(string) handlers.HandlerConst { return inmem.New }, false, true},
	}
	errs := make(chan string, 1024)
	for ci, c := range cfgs {
		l1 := filepath.Join(dir, fmt.Sprintf("l1-%d.sock", ci))
		l2 := filepath.Join(dir, fmt.Sprintf("l2-%d.sock", ci))
		front := filepath.Join(dir, fmt.Sprintf("rend-%d.sock", ci))
		startFake(t, l1)
		var h2 handlers.HandlerConst = handlers.NilHandler
		var o orcas.OrcaConst = orcas.L1Only
		if c.l2 {
			startFake(t, l2)
			h2 = memcached.Regular(l2)
			o = orcas.L1L2
		}
		if c.lock {
			o, _ = orcas.Locked(o, true, 2)
		}
		geteOK = !c.l2 && c.name != "chunked"
		go server.ListenAndServe(server.UnixListener(front), protocols, server.Default, o, c.h1(l1), h2)
		// wait for the listener
		for i := 0; i < 200; i++ {
			if cc, err := net.Dial("unix", front); err == nil {
				cc.Close()
				break
			}
			time.Sleep(5 * time.Millisecond)
		}
		var wg sync.WaitGroup
		nclients := 8 + r.IntN(9)
		for k := 0; k < nclients; k++ {
			wg.Add(1)
			cr := rand.New(rand.NewPCG(seed()+uint64(ci*100+k), 7))
			proto := []string{"text", "bin"}[k%2]
			go func(k int) {
				defer wg.Done()
				client(t, front, ci*100+k, proto, cr, 150, errs)
			}(k)
		}
		stop := make(chan struct{})
		go func() {
			for {
				select {
				case <-stop:
					return
				default:
					rec := httptest.NewRecorder()
					http.DefaultServeMux.ServeHTTP(rec, httptest.NewRequest("GET", "/metrics", nil))
					time.Sleep(2 * time.Millisecond)
				}
			}
		}()
		wg.Wait()
		close(stop)
	}
	close(errs)
	for e := range errs {
		t.Errorf("functional problem in the race stage (not a race): %s", e)
	}
}

// TestRaceMetrics: observers and the /metrics reader in real parallelism (C18).
func TestRaceMetrics(t *testing.T) {
	if os.Getenv("VERIF_RACE") == "" {
		t.Skip("auxiliary stage, run by bin/check")
	}
	h := metrics.AddHistogram("race_stage", false, nil)
	hs := metrics.AddHistogram("race_stage_sampled", true, nil)
	c := metrics.AddCounter("race_stage_counter", nil)
	g := metrics.AddIntGauge("race_stage_gauge", nil)
	var wg sync.WaitGroup
	stop := make(chan struct{})
	for k := 0; k < 8; k++ {
		wg.Add(1)
		go func(k int) {
			defer wg.Done()
			r := rand.New(rand.NewPCG(seed()+uint64(k), 3))
			for i := 0; i < 40000; i++ {
				v := r.Uint64() >> uint(r.IntN(64))
				metrics.ObserveHist(h, v)
				metrics.ObserveHist(hs, v)
				metrics.IncCounter(c)
				metrics.IncCounterBy(c, 3)
				metrics.SetIntGauge(g, v)
			}
		}(k)
	}
	// two collectors scrape at the same time
	for s := 0; s < 2; s++ {
		go func() {
			for {
				select {
				case <-stop:
					return
				default:
					rec := httptest.NewRecorder()
					http.DefaultServeMux.ServeHTTP(rec, httptest.NewRequest("GET", "/metrics", nil))
				}
			}
		}()
	}
	wg.Wait()
	close(stop)
}

// TestRaceInmem: the shared in-memory backend under real parallelism (C17).
func TestRaceInmem(t *testing.T) {
	if os.Getenv("VERIF_RACE") == "" {
		t.Skip("auxiliary stage, run by bin/check")
	}
	dir := tmpDir(t)
	front := filepath.Join(dir, "rend-inmem.sock")
	protocols := []protocol.Components{binprot.Components, textprot.Components}
	go server.ListenAndServe(server.UnixListener(front), protocols, server.Default, orcas.L1Only, inmem.New, handlers.NilHandler)
	for i := 0; i < 200; i++ {
		if cc, err := net.Dial("unix", front); err == nil {
			cc.Close()
			break
		}
		time.Sleep(5 * time.Millisecond)
	}
	errs := make(chan string, 256)
	var wg sync.WaitGroup
	for k := 0; k < 16; k++ {
		wg.Add(1)
		go func(k int) {
			defer wg.Done()
			// shared keys on purpose: id 0 for everybody
			client(t, front, 0, []string{"text", "bin"}[k%2], rand.New(rand.NewPCG(seed()+uint64(k), 5)), 300, errs)
		}(k)
	}
	wg.Wait()
	close(errs)
	for range errs {
	}
}

// TestRaceLocked: main port (Locked) and batch port (LockedWithExisting) share one lock
// set, as in app/memproxy.go; many connections on both ports append unique tokens to a
// few shared keys. Auxiliary to C03 (and to C14's "lock tables" clause): besides the race
// detector, the stage compares L1 with L2 when all commands have been answered.
func TestRaceLocked(t *testing.T) {
	if os.Getenv("VERIF_RACE") == "" {
		t.Skip("auxiliary stage, run by bin/check")
	}
	dir := tmpDir(t)
	protocols := []protocol.Components{binprot.Components, textprot.Components}
	for _, multi := range []bool{false, true} {
		l1p := filepath.Join(dir, fmt.Sprintf("l1-%v.sock", multi))
		l2p := filepath.Join(dir, fmt.Sprintf("l2-%v.sock", multi))
		mainp := filepath.Join(dir, fmt.Sprintf("main-%v.sock", multi))
		batchp := filepath.Join(dir, fmt.Sprintf("batch-%v.sock", multi))
		f1 := startFake(t, l1p)
		f2 := startFake(t, l2p)
		h1, h2 := memcached.Regular(l1p), memcached.Regular(l2p)
		o, slot := orcas.Locked(orcas.L1L2, multi, 8)
		go server.ListenAndServe(server.UnixListener(mainp), protocols, server.Default, o, h1, h2)
		go server.ListenAndServe(server.UnixListener(batchp), protocols, server.Default, orcas.LockedWithExisting(orcas.L1L2Batch, slot), h1, h2)
		for _, p := range []string{mainp, batchp} {
			for i := 0; i < 200; i++ {
				if cc, err := net.Dial("unix", p); err == nil {
					cc.Close()
					break
				}
				time.Sleep(5 * time.Millisecond)
			}
		}
		keys := []string{"sk-0", "sk-1", "sk-2", "sk-3"}
		// seed the keys through the main port so that L1 holds them
		seedc, err := net.Dial("unix", mainp)
		if err != nil {
			t.Fatal(err)
		}
		sbr := bufio.NewReader(seedc)
		for _, k := range keys {
			op := wire.Op{Kind: "set", Key: k, Data: []byte("|")}
			seedc.Write(wire.EncodeText(op))
			readReply(sbr, "text", op)
		}
		seedc.Close()
		var wg sync.WaitGroup
		for c := 0; c < 12; c++ {
			wg.Add(1)
			go func(c int) {
				defer wg.Done()
				port := batchp
				if c >= 8 {
					port = mainp
				}
				cc, err := net.Dial("unix", port)
				if err != nil {
					return
				}
				defer cc.Close()
				br := bufio.NewReader(cc)
				r := rand.New(rand.NewPCG(seed()+uint64(c), 11))
				for i := 0; i < 400; i++ {
					op := wire.Op{Kind: "append", Key: keys[r.IntN(len(keys))], Data: []byte(fmt.Sprintf("c%d.%d|", c, i))}
					if _, err := cc.Write(wire.EncodeText(op)); err != nil {
						return
					}
					cc.SetReadDeadline(time.Now().Add(20 * time.Second))
					if err := readReply(br, "text", op); err != nil {
						return
					}
				}
			}(c)
		}
		wg.Wait()
		f1.mu.Lock()
		f2.mu.Lock()
		for _, k := range keys {
			a, b := f1.fake.Store.Peek(k), f2.fake.Store.Peek(k)
			if a != nil && (b == nil || !bytes.Equal(a.Value, b.Value)) {
				t.Errorf("PARALLEL-STAGE VIOLATION: all commands have been answered but L1 and L2 differ for key %q (multi-reader %v): the two ports did not exclude each other", k, multi)
			}
		}
		f2.mu.Unlock()
		f1.mu.Unlock()
	}
}
