// driver runs one property check: it regenerates the import-substitution overlay
// from /repo's current working tree, builds the harness, shards the seeded runs
// over worker processes, re-runs crashed workers' seeds to classify crashes,
// confirms every violation by replaying its minimised file in a fresh process,
// matches violations against the committed known-findings file, writes the
// evidence file and prints the verdict lines.
//
// exit 0: property held on everything explored (possibly with KNOWN-FINDING lines)
// exit 1: VIOLATION property=<id> replay=<path>
// exit 2: infrastructure trouble (build failure, watchdog, replay divergence) — never a VIOLATION line
package main

import (
	"encoding/json"
	"flag"
	"fmt"
	"os"
	"os/exec"
	"path/filepath"
	"runtime"
	"sort"
	"strconv"
	"strings"
	"sync"
	"time"
)

type workerViolation struct {
	Class  string `json:"class"`
	Rule   string `json:"rule"`
	Msg    string `json:"msg"`
	Replay string `json:"replay"`
	Index  int    `json:"index"`
}

type workerOut struct {
	Runs        int               `json:"runs"`
	KSteps      int64             `json:"ksteps"`
	SimMs       int64             `json:"sim_ms"`
	Decisions   int64             `json:"decisions"`
	PlanHashes  []uint64          `json:"plan_hashes"`
	SchedHashes []uint64          `json:"sched_hashes"`
	StateHashes []uint64          `json:"state_hashes"`
	Probes      map[string]int    `json:"probes"`
	Fired       map[string]int    `json:"fired"`
	Violations  []workerViolation `json:"violations"`
	Infra       []string          `json:"infra"`
	Samples     []json.RawMessage `json:"samples"`
	WallS       float64           `json:"wall_s"`
	Exhaustive  bool              `json:"exhaustive"`
	Next        int               `json:"next"`
}

type propMeta struct {
	ID           string   `json:"id"`
	Level        string   `json:"level"`
	Rule         string   `json:"rule"`
	Real         []string `json:"real"`
	Stub         []string `json:"stub"`
	Assume       []string `json:"assume"`
	RunsQuick    int      `json:"runs_quick"`
	RunsThorough int      `json:"runs_thorough"`
	EnumQuick    int      `json:"enum_quick"`
	EnumThorough int      `json:"enum_thorough"`
	Chunk        int      `json:"chunk"`
	FaultKinds   []string `json:"fault_kinds"`
	RaceTest     string   `json:"race_test"`
}

type finding struct {
	Status   string `json:"status"` // known | fixed
	Property string `json:"property"`
	Class    string `json:"class,omitempty"` // violation class (prefix match) for status=known
	Commit   string `json:"commit,omitempty"`
	What     string `json:"what"`
	Line     string `json:"line"`
}

var (
	verif = envOr("VERIF", "/verif")
	repo  = envOr("REPO", "/repo")
	work  string
	goBin = envOr("GO", "go1.26.8")
)

func envOr(k, d string) string {
	if v := os.Getenv(k); v != "" {
		return v
	}
	return d
}

func infra(format string, a ...interface{}) {
	fmt.Fprintf(os.Stderr, "INFRA: "+format+"\n", a...)
	os.Exit(2)
}

func run(dir string, env []string, timeout time.Duration, name string, args ...string) (string, error) {
	cmd := exec.Command(name, args...)
	cmd.Dir = dir
	cmd.Env = append(os.Environ(), env...)
	var out strings.Builder
	cmd.Stdout = &out
	cmd.Stderr = &out
	if err := cmd.Start(); err != nil {
		return "", err
	}
	done := make(chan error, 1)
	go func() { done <- cmd.Wait() }()
	select {
	case err := <-done:
		return out.String(), err
	case <-time.After(timeout):
		cmd.Process.Kill()
		<-done
		return out.String(), fmt.Errorf("timeout after %v", timeout)
	}
}

func build() string {
	os.MkdirAll(work, 0o755)
	sim := filepath.Join(verif, "sim")
	out, err := run(sim, nil, 10*time.Minute, goBin, "run", "./cmd/mkoverlay", "-repo", repo, "-out", filepath.Join(work, "overlay"), "-hooks", filepath.Join(sim, "hooks"))
	if err != nil {
		infra("mkoverlay failed: %v\n%s", err, out)
	}
	bin := filepath.Join(work, "props.test")
	args := []string{"test", "-c", "-overlay", filepath.Join(work, "overlay", "overlay.json"), "-o", bin}
	if repo != "/repo" {
		// exploratory runs against a scratch copy of the repository (never used by the
		// registered checks): same module file with the replace directive re-pointed
		gm, err := os.ReadFile(filepath.Join(sim, "go.mod"))
		if err != nil {
			infra("cannot read go.mod: %v", err)
		}
		alt := filepath.Join(work, "alt.mod")
		os.WriteFile(alt, []byte(strings.Replace(string(gm), "=> /repo", "=> "+repo, 1)), 0o644)
		if gs, err := os.ReadFile(filepath.Join(sim, "go.sum")); err == nil {
			os.WriteFile(filepath.Join(work, "alt.sum"), gs, 0o644)
		}
		args = append(args, "-modfile="+alt)
	}
	args = append(args, "./props")
	out, err = run(sim, nil, 20*time.Minute, goBin, args...)
	if err != nil {
		infra("building the harness against %s failed: %v\n%s", repo, err, out)
	}
	return bin
}

func main() {
	tier := flag.String("tier", "quick", "quick | thorough")
	replay := flag.String("replay", "", "replay file")
	runsFlag := flag.Int("runs", 0, "override the number of seeded runs")
	par := flag.Int("j", runtime.NumCPU(), "parallel workers")
	flag.Parse()
	work = filepath.Join(verif, ".work")
	if wd := os.Getenv("VERIF_WORK"); wd != "" {
		work = wd
	}
	if t := os.Getenv("VERIF_TIER"); t != "" && flag.NArg() > 0 && *tier == "quick" && flag.Lookup("tier").Value.String() == "quick" {
		_ = t
	}
	os.Setenv("GOFLAGS", "-mod=mod")
	os.Setenv("GOPROXY", "off")
	os.Setenv("GOSUMDB", "off")
	os.Setenv("GOTOOLCHAIN", "local")

	if *replay != "" {
		bin := build()
		out, err := run(verif, []string{"VERIF_REPLAY=" + *replay, "VERIF_REPLAY_LOG=" + os.Getenv("VERIF_REPLAY_LOG")}, 10*time.Minute, bin, "-test.run", "^TestReplay$", "-test.timeout", "10m")
		fmt.Print(out)
		if err != nil {
			if ee, ok := err.(*exec.ExitError); ok {
				os.Exit(ee.ExitCode())
			}
			os.Exit(2)
		}
		return
	}
	if flag.NArg() != 1 {
		infra("usage: driver [-tier quick|thorough] <property> | -replay <file>")
	}
	prop := flag.Arg(0)
	seed := uint64(1)
	if s := os.Getenv("VERIF_SEED"); s != "" {
		if v, err := strconv.ParseInt(s, 10, 64); err == nil {
			seed = uint64(v)
		} else if v, err := strconv.ParseUint(s, 10, 64); err == nil {
			seed = v
		}
	}
	start := time.Now()
	bin := build()
	buildS := time.Since(start).Seconds()

	// property metadata comes from the harness itself
	metaPath := filepath.Join(work, prop+".meta.json")
	out, err := run(verif, []string{"VERIF_PROP=" + prop, "VERIF_OUT=" + metaPath}, 10*time.Minute, bin, "-test.run", "^TestMeta$")
	if err != nil {
		infra("cannot obtain metadata of %s: %v\n%s", prop, err, out)
	}
	var meta propMeta
	mb, _ := os.ReadFile(metaPath)
	if json.Unmarshal(mb, &meta) != nil || meta.ID != prop {
		infra("bad metadata for %s", prop)
	}

	total := meta.RunsQuick
	enumN := meta.EnumQuick
	if *tier == "thorough" {
		total = meta.RunsThorough
		enumN = meta.EnumThorough
	}
	if *runsFlag > 0 {
		total = *runsFlag
	}
	chunk := meta.Chunk
	if chunk <= 0 {
		chunk = 400
	}
	replayDir := filepath.Join(verif, "replays")
	if wd := os.Getenv("VERIF_WORK"); wd != "" {
		replayDir = filepath.Join(wd, "replays")
	}
	os.MkdirAll(replayDir, 0o755)
	outDir := filepath.Join(work, "out-"+prop+"-"+*tier)
	os.RemoveAll(outDir)
	os.MkdirAll(outDir, 0o755)

	type job struct {
		from, to int
		enum     bool
	}
	var jobs []job
	// every worker process builds the whole enumeration before it takes its slice: large
	// enumerations get larger slices (at most ~64 processes, 1200 plans each at most)
	echunk := chunk
	if c := (enumN + 63) / 64; c > echunk {
		echunk = c
	}
	if echunk > 1200 {
		echunk = 1200
	}
	if echunk < chunk {
		echunk = chunk
	}
	for a := 0; a < enumN; a += echunk {
		b := a + echunk
		if b > enumN {
			b = enumN
		}
		jobs = append(jobs, job{a, b, true})
	}
	for a := 0; a < total; a += chunk {
		b := a + chunk
		if b > total {
			b = total
		}
		jobs = append(jobs, job{a, b, false})
	}
	perWorkerTimeout := 20 * time.Minute
	if *tier == "thorough" {
		perWorkerTimeout = 90 * time.Minute
	}

	var mu sync.Mutex
	var outs []workerOut
	var infraMsgs []string
	type crash struct {
		index int
		seed  string
		log   string
		enum  bool
		spin  string
	}
	watchdogS := "45"
	if *tier == "thorough" {
		watchdogS = "120"
	}
	var crashes []crash
	sem := make(chan struct{}, *par)
	var wg sync.WaitGroup
	for ji, j := range jobs {
		wg.Add(1)
		sem <- struct{}{}
		go func(ji int, j job) {
			defer wg.Done()
			defer func() { <-sem }()
			op := filepath.Join(outDir, fmt.Sprintf("w%05d.json", ji))
			env := []string{"VERIF_PROP=" + prop, "VERIF_TIER=" + *tier, fmt.Sprintf("VERIF_SEED=%d", seed),
				fmt.Sprintf("VERIF_TO=%d", j.to), "VERIF_OUT=" + op, "VERIF_REPLAY_DIR=" + replayDir, "VERIF_WATCHDOG_S=" + watchdogS}
			if j.enum {
				env = append(env, "VERIF_ENUM=1")
			}
			from := j.from
			var skips []string
			for attempt := 0; ; attempt++ {
				env2 := append(append([]string{}, env...), fmt.Sprintf("VERIF_FROM=%d", from), "VERIF_SKIP="+strings.Join(skips, ","))
				os.Remove(op)
				os.Remove(op + ".partial")
				o, err := run(verif, env2, perWorkerTimeout, bin, "-test.run", "^TestWorker$", "-test.timeout", "0")
				data, rerr := os.ReadFile(op)
				mu.Lock()
				if rerr != nil {
					// the worker died: which run was it executing?
					intent, _ := os.ReadFile(op + ".intent")
					spin, _ := os.ReadFile(op + ".spin")
					os.Remove(op + ".spin")
					f := strings.Fields(string(intent))
					if len(f) == 2 && err != nil && !strings.Contains(err.Error(), "timeout") {
						idx, _ := strconv.Atoi(f[0])
						crashes = append(crashes, crash{index: idx, seed: f[1], log: tail(o, 6000), enum: j.enum, spin: string(spin)})
						// keep what the worker had checkpointed and carry on after it in a new process
						next := from
						if pd, perr := os.ReadFile(op + ".partial"); perr == nil {
							var po workerOut
							if json.Unmarshal(pd, &po) == nil {
								outs = append(outs, po)
								next = po.Next
							}
						}
						mu.Unlock()
						skips = append(skips, strconv.Itoa(idx))
						if attempt < 60 {
							from = next
							continue
						}
						return
					}
					infraMsgs = append(infraMsgs, fmt.Sprintf("worker %d (%d..%d) produced no result: %v\n%s", ji, j.from, j.to, err, tail(o, 3000)))
					mu.Unlock()
					return
				}
				var wo workerOut
				if json.Unmarshal(data, &wo) != nil {
					infraMsgs = append(infraMsgs, fmt.Sprintf("worker %d wrote an unreadable result", ji))
					mu.Unlock()
					return
				}
				outs = append(outs, wo)
				mu.Unlock()
				return
			}
		}(ji, j)
	}
	wg.Wait()

	// classify crashes: re-run the single run in a fresh process
	type verdict struct {
		class, msg, replay string
	}
	var found []verdict
	transient := 0
	for _, c := range crashes {
		op := filepath.Join(outDir, fmt.Sprintf("crash-%d.json", c.index))
		env := []string{"VERIF_PROP=" + prop, "VERIF_TIER=" + *tier, fmt.Sprintf("VERIF_SEED=%d", seed),
			fmt.Sprintf("VERIF_FROM=%d", c.index), fmt.Sprintf("VERIF_TO=%d", c.index+1), "VERIF_OUT=" + op, "VERIF_REPLAY_DIR=" + replayDir}
		if c.enum {
			env = append(env, "VERIF_ENUM=1")
		}
		env = append(env, "VERIF_WATCHDOG_S="+watchdogS)
		o, err := run(verif, env, perWorkerTimeout, bin, "-test.run", "^TestWorker$", "-test.timeout", "0")
		if _, rerr := os.ReadFile(op); rerr == nil || err == nil {
			// The run that was being executed when the worker died completes in a fresh
			// process, and the rest of the worker's range was continued: nothing is left
			// unexplored. A death that does not reproduce is an environment event (e.g. the
			// kernel's OOM killer while several workers hold multi-gigabyte buffers that
			// C11's inputs legitimately declare); it is noted, and only a pile-up is trouble.
			transient++
			fmt.Fprintf(os.Stderr, "NOTE: a worker died while executing run %d; the run completes in a fresh process and was counted there. Last output of the dead worker: %s\n", c.index, lastLines(c.log, 6))
			if data, derr := os.ReadFile(op); derr == nil {
				var wo workerOut
				if json.Unmarshal(data, &wo) == nil {
					outs = append(outs, wo)
				}
			}
			if transient > 3 {
				infraMsgs = append(infraMsgs, fmt.Sprintf("%d worker deaths that do not reproduce; last at run %d:\n%s", transient, c.index, c.log))
			}
			continue
		}
		where := crashSite(o)
		kind := "crash"
		if spin, serr := os.ReadFile(op + ".spin"); serr == nil && len(spin) > 0 {
			kind = "spin"
			where, _, _ = strings.Cut(string(spin), "\n")
			o = string(spin)
		} else if c.spin != "" {
			infraMsgs = append(infraMsgs, fmt.Sprintf("spin at run %d did not reproduce in a fresh process", c.index))
			continue
		}
		if where == "" {
			infraMsgs = append(infraMsgs, fmt.Sprintf("worker crash at run %d has no frame in repository code:\n%s", c.index, tail(o, 4000)))
			continue
		}
		rp := filepath.Join(replayDir, fmt.Sprintf("%s-%s-%d-%d-crash.json", prop, *tier, seed, c.index))
		rf := map[string]interface{}{"property": prop, "kind": kind, "base_seed": seed, "run_index": c.index, "tier": *tier, "enum": c.enum,
			"crash": tail(o, 8000), "replay_cmd": fmt.Sprintf("VERIF_SEED=%d bin/check %s %s -from %d", seed, prop, *tier, c.index)}
		js, _ := json.MarshalIndent(rf, "", " ")
		os.WriteFile(rp, js, 0o644)
		if kind == "spin" {
			found = append(found, verdict{class: "spin:" + where, msg: "a goroutine spins in " + where + " and never blocks (two stack samples 5 s apart, no kernel step for " + watchdogS + " s)", replay: rp})
		} else {
			found = append(found, verdict{class: "crash:" + where, msg: "the process crashed in " + where + ": " + firstLine(o), replay: rp})
		}
	}

	// auxiliary real-parallel stage under the race detector (runtime monitoring, not simulation)
	raceInfo := map[string]interface{}{"ran": false}
	if meta.RaceTest != "" && os.Getenv("VERIF_NO_RACE_STAGE") == "" {
		rstart := time.Now()
		rbin := filepath.Join(work, "race.test")
		rargs := []string{"test", "-race", "-c", "-o", rbin}
		if repo != "/repo" {
			rargs = append(rargs, "-modfile="+filepath.Join(work, "alt.mod"))
		}
		rargs = append(rargs, "./race")
		if o, err := run(filepath.Join(verif, "sim"), nil, 30*time.Minute, goBin, rargs...); err != nil {
			infra("building the -race stage failed: %v\n%s", err, o)
		}
		rounds := 1
		if *tier == "thorough" {
			rounds = 6
		}
		reports := 0
		for r := 0; r < rounds; r++ {
			rseed := seed + uint64(r)*7919
			o, _ := run(verif, []string{"VERIF_RACE=1", fmt.Sprintf("VERIF_SEED=%d", rseed)}, 20*time.Minute, rbin, "-test.run", "^"+meta.RaceTest+"$", "-test.timeout", "20m")
			for _, blk := range strings.Split(o, "==================") {
				if !strings.Contains(blk, "WARNING: DATA RACE") || !strings.Contains(blk, "github.com/netflix/rend/") {
					continue
				}
				reports++
				where := ""
				for _, l := range strings.Split(blk, "\n") {
					l = strings.TrimSpace(l)
					if strings.HasPrefix(l, "github.com/netflix/rend/") {
						if k := strings.LastIndex(l, "("); k > 0 {
							l = l[:k]
						}
						where = l
						break
					}
				}
				rp := filepath.Join(replayDir, fmt.Sprintf("%s-%s-%d-race-%d.json", prop, *tier, rseed, reports))
				rf := map[string]interface{}{"property": prop, "kind": "race", "stage": "auxiliary real-parallel -race stage (runtime monitoring, not simulation)", "seed": rseed,
					"report": blk, "replay_cmd": fmt.Sprintf("VERIF_RACE=1 VERIF_SEED=%d .work/race.test -test.run '^%s$'  (re-running reproduces a race with high, not absolute, certainty)", rseed, meta.RaceTest)}
				js, _ := json.MarshalIndent(rf, "", " ")
				os.WriteFile(rp, js, 0o644)
				found = append(found, verdict{class: "race:" + where, msg: "the race detector reports a data race in " + where + " (auxiliary -race stage, seed " + fmt.Sprint(rseed) + ")", replay: rp})
			}
			if i := strings.Index(o, "PARALLEL-STAGE VIOLATION:"); i >= 0 {
				msg := o[i:]
				if j := strings.Index(msg, "\n"); j > 0 {
					msg = msg[:j]
				}
				reports++
				rp := filepath.Join(replayDir, fmt.Sprintf("%s-%s-%d-parallel-%d.json", prop, *tier, rseed, reports))
				rf := map[string]interface{}{"property": prop, "kind": "parallel", "stage": "auxiliary real-parallel stage (runtime monitoring, not simulation)", "seed": rseed, "report": msg,
					"replay_cmd": fmt.Sprintf("VERIF_RACE=1 VERIF_SEED=%d .work/race.test -test.run '^%s$'", rseed, meta.RaceTest)}
				js, _ := json.MarshalIndent(rf, "", " ")
				os.WriteFile(rp, js, 0o644)
				found = append(found, verdict{class: "race:parallel-stage-oracle", msg: msg, replay: rp})
			}
			if strings.Contains(o, "functional problem in the race stage") {
				fmt.Fprintln(os.Stderr, "NOTE: the -race stage's clients saw a functional problem (not a race):", lastLines(o, 3))
			}
		}
		raceInfo = map[string]interface{}{"ran": true, "test": meta.RaceTest, "rounds": rounds, "race_reports_in_repository_code": reports, "wall_s": time.Since(rstart).Seconds(),
			"label": "auxiliary evidence outside the technique family: real goroutines, real unix sockets, no kernel, built with -race"}
	}

	// merge
	agg := workerOut{Probes: map[string]int{}, Fired: map[string]int{}}
	plans, scheds, states := map[uint64]struct{}{}, map[uint64]struct{}{}, map[uint64]struct{}{}
	exhaustive := enumN > 0
	for _, o := range outs {
		agg.Runs += o.Runs
		agg.KSteps += o.KSteps
		agg.SimMs += o.SimMs
		agg.Decisions += o.Decisions
		for k, v := range o.Probes {
			agg.Probes[k] += v
		}
		for k, v := range o.Fired {
			agg.Fired[k] += v
		}
		for _, h := range o.PlanHashes {
			plans[h] = struct{}{}
		}
		for _, h := range o.SchedHashes {
			scheds[h] = struct{}{}
		}
		for _, h := range o.StateHashes {
			states[h] = struct{}{}
		}
		if len(agg.Samples) < 3 {
			agg.Samples = append(agg.Samples, o.Samples...)
		}
		agg.Infra = append(agg.Infra, o.Infra...)
		for _, v := range o.Violations {
			found = append(found, verdict{class: v.Class, msg: v.Msg, replay: v.Replay})
		}
	}
	sort.Slice(found, func(i, j int) bool { return found[i].replay < found[j].replay })
	infraMsgs = append(infraMsgs, agg.Infra...)

	// confirm violations by strict replay in a fresh process
	confirmed := found[:0]
	for _, v := range found {
		if strings.HasPrefix(v.class, "crash:") || strings.HasPrefix(v.class, "spin:") || strings.HasPrefix(v.class, "race:") {
			confirmed = append(confirmed, v)
			continue
		}
		o, err := run(verif, []string{"VERIF_REPLAY=" + v.replay}, 10*time.Minute, bin, "-test.run", "^TestReplay$", "-test.timeout", "10m")
		if err != nil || !strings.Contains(o, `"result":"REPRODUCED"`) {
			infraMsgs = append(infraMsgs, fmt.Sprintf("violation %s (%s) did not reproduce on strict replay of %s:\n%s", v.class, v.msg, v.replay, tail(o, 2000)))
			continue
		}
		confirmed = append(confirmed, v)
	}

	// known findings
	var kf struct {
		Findings []finding `json:"findings"`
	}
	if b, err := os.ReadFile(filepath.Join(verif, "known_findings.json")); err == nil {
		if err := json.Unmarshal(b, &kf); err != nil {
			infra("known_findings.json is not valid JSON: %v", err)
		}
	}
	knownHit := map[int]string{}
	var fresh []verdict
	for _, v := range confirmed {
		matched := false
		for i, f := range kf.Findings {
			if f.Status == "known" && f.Property == prop && f.Class != "" && strings.HasPrefix(v.class, f.Class) {
				if _, ok := knownHit[i]; !ok {
					knownHit[i] = v.replay
				}
				matched = true
				break
			}
		}
		if !matched {
			fresh = append(fresh, v)
		}
	}

	wall := time.Since(start).Seconds()
	// evidence
	var samples []interface{}
	for _, s := range agg.Samples {
		var x interface{}
		json.Unmarshal(s, &x)
		samples = append(samples, x)
	}
	if len(samples) == 0 {
		samples = append(samples, "no sample produced")
	}
	runsPerHour := 0.0
	if wall > 0 {
		runsPerHour = float64(agg.Runs) / wall * 3600
	}
	cov := map[string]interface{}{
		"evaluations":              agg.Runs,
		"distinct_nontrivial":      len(plans),
		"rule":                     meta.Rule,
		"samples":                  samples,
		"exhaustive":               false,
		"exhaustive_subspace":      exhaustive,
		"seeds":                    fmt.Sprintf("base seed %d; run i uses SplitMix(base, property, i), i in [0,%d)", seed, total),
		"enumerated_cases":         enumN,
		"runs_per_hour":            int64(runsPerHour),
		"kernel_steps":             agg.KSteps,
		"simulated_time_s":         float64(agg.SimMs) / 1000,
		"schedule_decisions":       agg.Decisions,
		"distinct_schedules":       len(scheds),
		"distinct_abstract_states": len(states),
		"state_measure":            "hash of (deployment, reference-map contents summary, L1 key set, command kind) at quiescent points; distinct schedules = distinct (plan, decision sequence) hashes; both capped per worker",
		"faults_fired":             agg.Fired,
		"fault_kinds_available":    meta.FaultKinds,
		"reach_probes":             agg.Probes,
		"real_components":          meta.Real,
		"stub_components":          meta.Stub,
		"worker_processes":         len(jobs),
		"build_s":                  buildS,
		"known_findings_hit":       len(knownHit),
		"race_stage":               raceInfo,
		"infra_messages":           len(infraMsgs),
	}
	ev := map[string]interface{}{
		"property_id": prop, "tier": *tier, "seed": int64(seed), "level": meta.Level, "coverage": cov,
		"assumptions": append([]string{"the simulated memcached (sim/mcfake) follows the memcached binary protocol and expiry rules as documented", "testing/synctest quiescence detection of go1.26.8"}, meta.Assume...),
		"wall_s":      wall, "violations": len(fresh),
	}
	js, _ := json.MarshalIndent(ev, "", " ")
	evDir := filepath.Join(verif, "evidence")
	if wd := os.Getenv("VERIF_WORK"); wd != "" {
		evDir = filepath.Join(wd, "evidence")
	}
	os.MkdirAll(evDir, 0o755)
	if err := os.WriteFile(filepath.Join(evDir, prop+".json"), js, 0o644); err != nil {
		infra("cannot write evidence: %v", err)
	}

	fmt.Printf("%s %s: %d runs (%d enumerated), %d kernel steps, %d distinct non-trivial plans, %d distinct states, %.1fs wall, faults fired %v\n",
		prop, *tier, agg.Runs, enumN, agg.KSteps, len(plans), len(states), wall, agg.Fired)
	for i, f := range kf.Findings {
		if rp, ok := knownHit[i]; ok {
			fmt.Printf("KNOWN-FINDING: property=%s %s (replay=%s)\n", prop, f.What, rp)
		}
	}
	for _, m := range infraMsgs {
		fmt.Fprintln(os.Stderr, "INFRA:", m)
	}
	if len(fresh) > 0 {
		seen := map[string]bool{}
		for _, v := range fresh {
			if seen[v.class] {
				continue
			}
			seen[v.class] = true
			fmt.Printf("VIOLATION property=%s replay=%s\n  class=%s\n  %s\n", prop, v.replay, v.class, v.msg)
		}
		os.Exit(1)
	}
	if len(infraMsgs) > 0 {
		os.Exit(2)
	}
}

func tail(s string, n int) string {
	if len(s) > n {
		return "..." + s[len(s)-n:]
	}
	return s
}

func firstLine(s string) string {
	for _, l := range strings.Split(s, "\n") {
		if strings.HasPrefix(l, "panic:") || strings.HasPrefix(l, "fatal error:") {
			return l
		}
	}
	return ""
}

// crashSite returns the first frame of a crash dump that is in repository code.
func crashSite(dump string) string {
	i := strings.Index(dump, "panic:")
	if j := strings.Index(dump, "fatal error:"); j >= 0 && (i < 0 || j < i) {
		i = j
	}
	if i < 0 {
		return ""
	}
	for _, l := range strings.Split(dump[i:], "\n") {
		l = strings.TrimSpace(l)
		if strings.HasPrefix(l, "github.com/netflix/rend/") {
			if k := strings.LastIndex(l, "("); k > 0 {
				l = l[:k]
			}
			return l
		}
	}
	return ""
}

func lastLines(s string, n int) string {
	var keep []string
	for _, l := range strings.Split(strings.TrimSpace(s), "\n") {
		if strings.HasPrefix(l, "[]byte{") {
			continue
		}
		if len(l) > 300 {
			l = l[:300]
		}
		keep = append(keep, l)
	}
	if len(keep) > n {
		keep = keep[len(keep)-n:]
	}
	return strings.Join(keep, " | ")
}
