// mkoverlay prepares the -overlay file with which rend is compiled for simulation.
// It walks the non-test Go files of the rend packages under test in the current
// working tree of the repository and rewrites, in place on the same line, the
// import paths of the standard-library packages that the simulator shadows.
// Nothing in the repository is modified: rewritten copies go to the output
// directory and overlay.json maps the original paths to them. Optional extra
// files (add-only hooks living in /verif) can be mapped into rend packages.
//
// usage: mkoverlay -repo /repo -out /verif/.work/overlay [-hooks /verif/sim/hooks]
package main

import (
	"encoding/json"
	"flag"
	"fmt"
	"go/parser"
	"go/token"
	"os"
	"path/filepath"
	"runtime"
	"sort"
	"strconv"
	"strings"
)

var shadows = map[string][2]string{
	"sync":        {"sync", "rendsim/shadow/ssync"},
	"sync/atomic": {"atomic", "rendsim/shadow/satomic"},
	"net":         {"net", "rendsim/shadow/snet"},
	"math/rand":   {"rand", "rendsim/shadow/srand"},
	"crypto/rand": {"rand", "rendsim/shadow/scrand"},
}

// packages (relative to the repository root) compiled with import substitution
var pkgs = []string{
	"common", "timer", "metrics", "protocol", "protocol/binprot", "protocol/textprot",
	"server", "orcas", "handlers", "handlers/inmem",
	"handlers/memcached", "handlers/memcached/std", "handlers/memcached/chunked", "handlers/memcached/batched",
}

func main() {
	repo := flag.String("repo", "/repo", "repository root")
	out := flag.String("out", "", "output directory")
	hooks := flag.String("hooks", "", "directory with <pkg path>/*.go files to add to rend packages")
	detmaps := flag.Bool("detmaps", true, "make Go map iteration start at offset 0 (deterministic for maps of at most 8 entries)")
	flag.Parse()
	if *out == "" {
		fmt.Fprintln(os.Stderr, "need -out")
		os.Exit(2)
	}
	os.RemoveAll(*out)
	if err := os.MkdirAll(*out, 0o755); err != nil {
		fail(err)
	}
	replace := map[string]string{}
	n := 0
	for _, p := range pkgs {
		dir := filepath.Join(*repo, p)
		ents, err := os.ReadDir(dir)
		if err != nil {
			continue // a package may have been removed by an edit; the build will tell
		}
		for _, e := range ents {
			name := e.Name()
			if e.IsDir() || !strings.HasSuffix(name, ".go") || strings.HasSuffix(name, "_test.go") {
				continue
			}
			src := filepath.Join(dir, name)
			data, err := os.ReadFile(src)
			if err != nil {
				fail(err)
			}
			res, changed, err := rewrite(src, data)
			if err != nil {
				fail(err)
			}
			if !changed {
				continue
			}
			dst := filepath.Join(*out, strings.ReplaceAll(p, "/", "_")+"__"+name)
			if err := os.WriteFile(dst, res, 0o644); err != nil {
				fail(err)
			}
			replace[src] = dst
			n++
		}
	}
	if *hooks != "" {
		filepath.Walk(*hooks, func(path string, info os.FileInfo, err error) error {
			if err != nil || info.IsDir() || !strings.HasSuffix(path, ".go") {
				return nil
			}
			rel, _ := filepath.Rel(*hooks, path)
			target := filepath.Join(*repo, filepath.Dir(rel), "zz_verif_"+filepath.Base(rel))
			abs, _ := filepath.Abs(path)
			replace[target] = abs
			return nil
		})
	}
	if *detmaps {
		// The Go runtime starts every map iteration at a random offset. rend iterates
		// over maps when it fails outstanding calls after a connection loss and when it
		// rebuilds a partially answered multi-get, so that randomness would leak into
		// the order of requests on the wire and break replay. The simulator owns this
		// source like every other: in the test binary only, iteration starts at offset
		// 0, which for maps of at most 8 entries (one group, slots filled in insertion
		// order) makes the order a function of the program's history.
		src := filepath.Join(runtime.GOROOT(), "src", "internal", "runtime", "maps", "table.go")
		data, err := os.ReadFile(src)
		if err != nil {
			fail(err)
		}
		text := string(data)
		for _, l := range []string{"it.entryOffset = rand()", "it.dirOffset = rand()"} {
			if strings.Count(text, l) != 1 {
				fail(fmt.Errorf("cannot find %q in %s (toolchain differs from go1.26.8?)", l, src))
			}
			text = strings.Replace(text, l, strings.Replace(l, "rand()", "0", 1), 1)
		}
		dst := filepath.Join(*out, "goroot_internal_runtime_maps__table.go")
		if err := os.WriteFile(dst, []byte(text), 0o644); err != nil {
			fail(err)
		}
		replace[src] = dst
	}
	keys := make([]string, 0, len(replace))
	for k := range replace {
		keys = append(keys, k)
	}
	sort.Strings(keys)
	js, _ := json.MarshalIndent(map[string]interface{}{"Replace": replace}, "", " ")
	if err := os.WriteFile(filepath.Join(*out, "overlay.json"), js, 0o644); err != nil {
		fail(err)
	}
	fmt.Printf("mkoverlay: %d files rewritten, %d overlay entries\n", n, len(replace))
}

func fail(err error) {
	fmt.Fprintln(os.Stderr, "mkoverlay:", err)
	os.Exit(2)
}

type edit struct {
	start, end int
	text       string
}

func rewrite(name string, data []byte) ([]byte, bool, error) {
	fset := token.NewFileSet()
	f, err := parser.ParseFile(fset, name, data, parser.ImportsOnly)
	if err != nil {
		return nil, false, err
	}
	var edits []edit
	for _, im := range f.Imports {
		p, _ := strconv.Unquote(im.Path.Value)
		sh, ok := shadows[p]
		if !ok {
			continue
		}
		start := fset.Position(im.Path.Pos()).Offset
		end := fset.Position(im.Path.End()).Offset
		text := strconv.Quote(sh[1])
		if im.Name == nil {
			text = sh[0] + " " + text
		}
		edits = append(edits, edit{start, end, text})
	}
	if len(edits) == 0 {
		return data, false, nil
	}
	sort.Slice(edits, func(i, j int) bool { return edits[i].start > edits[j].start })
	res := append([]byte(nil), data...)
	for _, e := range edits {
		res = append(res[:e.start], append([]byte(e.text), res[e.end:]...)...)
	}
	return res, true, nil
}
