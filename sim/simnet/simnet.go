// Package simnet is the simulated transport: in-memory net.Conn objects whose
// every byte is delivered when, and in the segment sizes, the kernel decides.
// The rend side of a connection is used by real rend goroutines (Read blocks
// durably on a channel created inside the synctest bubble; Write appends to a
// buffer owned by the kernel). The other side is not a goroutine at all: the
// kernel moves bytes by calling Deliver / TakeOut.
package simnet

import (
	"errors"
	"io"
	"net"
	"os"
	"runtime"
	"sync"
	"syscall"
	"time"

	"rendsim/shadow/hub"
)

// CloseMode says how the simulated peer went away.
type CloseMode int

const (
	Open             CloseMode = iota
	PeerClosed                 // orderly close: reads see EOF after draining, writes fail with EPIPE
	PeerClosedSilent           // writes are accepted and dropped, the error surfaces on the next read (ECONNRESET)
)

// Conn is the rend side of a simulated connection.
type Conn struct {
	Name string // "c3" (client) or "b5" (backend)
	Kind string // "client" | "backend"
	Addr string
	run  *hub.Run

	mu         sync.Mutex
	in         []byte
	peer       CloseMode
	notify     chan struct{}
	out        []byte
	closed     bool // closed by rend
	lastReader uint64
	lastWriter uint64
	backReader uint64
	waiting    bool // a rend goroutine is blocked in Read
	closeWake  bool // rend closed the connection while a reader was blocked: the kernel wakes it

	// statistics (kernel reads them at quiescence)
	Written int
	ReadN   int
	Writes  int
}

// NewConn must be called from inside the bubble.
func NewConn(run *hub.Run, name, kind, addr string) *Conn {
	return &Conn{Name: name, Kind: kind, Addr: addr, run: run, notify: make(chan struct{}, 1)}
}

type simAddr string

func (a simAddr) Network() string { return "sim" }
func (a simAddr) String() string  { return string(a) }

func (c *Conn) Read(p []byte) (int, error) {
	if c.Kind == "client" {
		if g := hub.Goid(); g != c.lastReader {
			c.lastReader = g
			c.run.NameGoroutine(c.Name)
		}
	} else {
		c.handoff(&c.backReader, "read-handoff")
	}
	for {
		c.mu.Lock()
		if c.closed {
			c.mu.Unlock()
			return 0, net.ErrClosed
		}
		if len(c.in) > 0 {
			n := copy(p, c.in)
			c.in = c.in[n:]
			c.ReadN += n
			c.mu.Unlock()
			return n, nil
		}
		if len(p) == 0 {
			c.mu.Unlock()
			return 0, nil
		}
		switch c.peer {
		case PeerClosed:
			c.mu.Unlock()
			return 0, io.EOF
		case PeerClosedSilent:
			c.mu.Unlock()
			return 0, &net.OpError{Op: "read", Net: "sim", Err: os.NewSyscallError("read", syscall.ECONNRESET)}
		}
		c.waiting = true
		c.mu.Unlock()
		if c.run.Closing() {
			runtime.Goexit()
		}
		<-c.notify
		c.mu.Lock()
		c.waiting = false
		c.mu.Unlock()
	}
}

// handoff serialises a change of the goroutine that writes to (or reads from) a
// connection. Rend uses a connection from one goroutine at a time; code that lets two
// goroutines share one would otherwise have them race within a single kernel step,
// outside the schedule. The first user takes the connection as it is, every later
// change of user parks and is granted by the kernel.
func (c *Conn) handoff(last *uint64, kind string) {
	g := hub.Goid()
	c.mu.Lock()
	if *last == g || c.run == nil || c.run.Closing() {
		c.mu.Unlock()
		return
	}
	if *last == 0 {
		*last = g
		c.mu.Unlock()
		return
	}
	c.mu.Unlock()
	c.run.Park(&hub.Parked{Kind: kind, Obj: c.Name, Who: c.run.WhoAmI(), Grant: func(int) {
		c.mu.Lock()
		*last = g
		c.mu.Unlock()
	}})
}

func (c *Conn) Write(p []byte) (int, error) {
	c.handoff(&c.lastWriter, "write-handoff")
	c.mu.Lock()
	defer c.mu.Unlock()
	if c.closed {
		return 0, net.ErrClosed
	}
	switch c.peer {
	case PeerClosed:
		return 0, &net.OpError{Op: "write", Net: "sim", Err: os.NewSyscallError("write", syscall.EPIPE)}
	case PeerClosedSilent:
		c.Written += len(p)
		return len(p), nil
	}
	c.out = append(c.out, p...)
	c.Written += len(p)
	c.Writes++
	return len(p), nil
}

func (c *Conn) Close() error {
	c.mu.Lock()
	if c.closed {
		c.mu.Unlock()
		return errors.New("close of closed simulated connection")
	}
	c.closed = true
	// A reader blocked on this connection is not woken here: the goroutine that closes and
	// the goroutine that reads would then run side by side within one kernel step, in an
	// order nobody decides. The wake-up is an event of its own (World.Internal).
	if c.waiting && !c.run.Closing() {
		c.closeWake = true
		c.mu.Unlock()
		return nil
	}
	c.mu.Unlock()
	select {
	case c.notify <- struct{}{}:
	default:
	}
	return nil
}

// NeedsCloseWake reports whether a reader is still blocked on a connection rend has closed.
func (c *Conn) NeedsCloseWake() bool {
	c.mu.Lock()
	defer c.mu.Unlock()
	return c.closeWake
}

// WakeClosed lets the blocked reader of a closed connection see the close.
func (c *Conn) WakeClosed() {
	c.mu.Lock()
	c.closeWake = false
	c.mu.Unlock()
	select {
	case c.notify <- struct{}{}:
	default:
	}
}

func (c *Conn) LocalAddr() net.Addr                { return simAddr("rend") }
func (c *Conn) RemoteAddr() net.Addr               { return simAddr(c.Addr) }
func (c *Conn) SetDeadline(t time.Time) error      { return nil }
func (c *Conn) SetReadDeadline(t time.Time) error  { return nil }
func (c *Conn) SetWriteDeadline(t time.Time) error { return nil }

// ---- kernel side ----

// Deliver hands bytes to the rend side.
func (c *Conn) Deliver(b []byte) {
	c.mu.Lock()
	c.in = append(c.in, b...)
	c.mu.Unlock()
	select {
	case c.notify <- struct{}{}:
	default:
	}
}

// TakeOut removes and returns everything rend has written so far.
func (c *Conn) TakeOut() []byte {
	c.mu.Lock()
	b := c.out
	c.out = nil
	c.mu.Unlock()
	return b
}

// OutLen is the number of bytes written by rend and not yet taken.
func (c *Conn) OutLen() int {
	c.mu.Lock()
	defer c.mu.Unlock()
	return len(c.out)
}

// Undelivered is the number of bytes delivered to rend that rend has not read yet.
func (c *Conn) Undelivered() int {
	c.mu.Lock()
	defer c.mu.Unlock()
	return len(c.in)
}

// PeerClose makes the simulated peer go away.
func (c *Conn) PeerClose(mode CloseMode) {
	c.mu.Lock()
	c.peer = mode
	c.mu.Unlock()
	select {
	case c.notify <- struct{}{}:
	default:
	}
}

// ClosedByRend reports whether rend closed its side.
func (c *Conn) ClosedByRend() bool {
	c.mu.Lock()
	defer c.mu.Unlock()
	return c.closed
}

// PeerState returns how the peer side was closed (Open if it was not).
func (c *Conn) PeerState() CloseMode {
	c.mu.Lock()
	defer c.mu.Unlock()
	return c.peer
}

// ReaderWaiting reports whether a rend goroutine is blocked in Read with nothing to read.
func (c *Conn) ReaderWaiting() bool {
	c.mu.Lock()
	defer c.mu.Unlock()
	return c.waiting && len(c.in) == 0
}

// Listener implements server.Listener on top of a channel owned by the kernel.
type Listener struct {
	Name string
	ch   chan net.Conn
}

// NewListener must be called from inside the bubble.
func NewListener(name string) *Listener { return &Listener{Name: name, ch: make(chan net.Conn, 64)} }

func (l *Listener) Accept() (net.Conn, error) {
	c, ok := <-l.ch
	if !ok {
		runtime.Goexit()
	}
	return c, nil
}

func (l *Listener) Configure(c net.Conn) (net.Conn, error) { return c, nil }

// Push makes a new client connection available to Accept.
func (l *Listener) Push(c net.Conn) { l.ch <- c }

// Shutdown ends the accept loop.
func (l *Listener) Shutdown() { close(l.ch) }

// ErrRefused is what a dial to a backend that is down returns.
var ErrRefused = &net.OpError{Op: "dial", Net: "unix", Err: os.NewSyscallError("connect", syscall.ECONNREFUSED)}
