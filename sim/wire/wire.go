// Package wire is the client side codec of the simulation. It is written from the
// memcached protocol documents and deliberately shares no code with rend's
// binprot/textprot packages or with /repo/client: the encoder produces the
// request bytes, the strict decoders turn the bytes rend sent back into frames
// and refuse anything a strict client would refuse.
package wire

import (
	"bytes"
	"encoding/binary"
	"fmt"
	"strconv"
	"strings"
)

// Op is one client command.
type Op struct {
	Kind   string   `json:"k"` // set add replace append prepend delete touch get gat noop version stats quit raw
	Key    string   `json:"key,omitempty"`
	Keys   []string `json:"keys,omitempty"`   // get: all keys, in order
	Quiets []bool   `json:"quiets,omitempty"` // binary get: per key GETQ (true) or GET (false); only the last may be false
	Noop   bool     `json:"noop,omitempty"`   // binary get: batch is closed by a NOOP
	Data   []byte   `json:"data,omitempty"`
	Flags  uint32   `json:"flags,omitempty"`
	TTL    uint32   `json:"ttl,omitempty"`
	Opaque uint32   `json:"opq,omitempty"`
	Quiet  bool     `json:"quiet,omitempty"` // binary setq/addq/...
	Raw    []byte   `json:"raw,omitempty"`
	SameOpq bool    `json:"same_opq,omitempty"` // handler-level get: every key carries Opaque (as the text parser produces)
	E       bool    `json:"e,omitempty"`        // binary get sent as GETE / GETEQ (rend's extension: the hit carries the expiry too)
	KeyB   []byte   `json:"keyb,omitempty"`  // binary-safe key (overrides Key)
	KeysB  [][]byte `json:"keysb,omitempty"` // binary-safe keys (override Keys)
}

// K returns the key bytes of a single-key command.
func (o Op) K() []byte {
	if o.KeyB != nil {
		return o.KeyB
	}
	return []byte(o.Key)
}

// KS returns the keys of a get.
func (o Op) KS() [][]byte {
	if o.KeysB != nil {
		return o.KeysB
	}
	out := make([][]byte, len(o.Keys))
	for i, k := range o.Keys {
		out[i] = []byte(k)
	}
	return out
}

func (o Op) String() string {
	switch o.Kind {
	case "get":
		if o.E {
			return fmt.Sprintf("gete %v quiets=%v noop=%v opq=%d", o.Keys, o.Quiets, o.Noop, o.Opaque)
		}
		return fmt.Sprintf("get %v quiets=%v noop=%v opq=%d", o.Keys, o.Quiets, o.Noop, o.Opaque)
	case "set", "add", "replace":
		return fmt.Sprintf("%s %q len=%d flags=%d ttl=%d opq=%d q=%v", o.Kind, o.Key, len(o.Data), o.Flags, o.TTL, o.Opaque, o.Quiet)
	case "append", "prepend":
		return fmt.Sprintf("%s %q len=%d opq=%d q=%v", o.Kind, o.Key, len(o.Data), o.Opaque, o.Quiet)
	case "touch", "gat":
		return fmt.Sprintf("%s %q ttl=%d opq=%d", o.Kind, o.Key, o.TTL, o.Opaque)
	case "delete":
		return fmt.Sprintf("delete %q opq=%d", o.Key, o.Opaque)
	case "raw":
		return fmt.Sprintf("raw %d bytes", len(o.Raw))
	}
	return o.Kind
}

// binary opcodes used by the client encoder
var binOp = map[string][2]uint8{ // [normal, quiet]
	"set": {0x01, 0x11}, "add": {0x02, 0x12}, "replace": {0x03, 0x13},
	"append": {0x0e, 0x19}, "prepend": {0x0f, 0x1a}, "delete": {0x04, 0x14},
	"touch": {0x1c, 0x1c}, "gat": {0x1d, 0x1e}, "noop": {0x0a, 0x0a},
	"version": {0x0b, 0x0b}, "stats": {0x10, 0x10}, "quit": {0x07, 0x17},
}

func binHeader(op uint8, keyLen, extLen, total int, opaque uint32) []byte {
	h := make([]byte, 24, 24+total)
	h[0] = 0x80
	h[1] = op
	binary.BigEndian.PutUint16(h[2:4], uint16(keyLen))
	h[4] = uint8(extLen)
	binary.BigEndian.PutUint32(h[8:12], uint32(total))
	binary.BigEndian.PutUint32(h[12:16], opaque)
	return h
}

// EncodeBinary produces the request bytes of op in the binary protocol.
func EncodeBinary(o Op) []byte {
	switch o.Kind {
	case "raw":
		return o.Raw
	case "set", "add", "replace":
		oc := binOp[o.Kind][b2i(o.Quiet)]
		k := o.K()
		h := binHeader(oc, len(k), 8, 8+len(k)+len(o.Data), o.Opaque)
		h = binary.BigEndian.AppendUint32(h, o.Flags)
		h = binary.BigEndian.AppendUint32(h, o.TTL)
		h = append(h, k...)
		return append(h, o.Data...)
	case "append", "prepend":
		oc := binOp[o.Kind][b2i(o.Quiet)]
		k := o.K()
		h := binHeader(oc, len(k), 0, len(k)+len(o.Data), o.Opaque)
		h = append(h, k...)
		return append(h, o.Data...)
	case "delete":
		k := o.K()
		h := binHeader(0x04, len(k), 0, len(k), o.Opaque)
		return append(h, k...)
	case "touch", "gat":
		k := o.K()
		h := binHeader(binOp[o.Kind][0], len(k), 4, 4+len(k), o.Opaque)
		h = binary.BigEndian.AppendUint32(h, o.TTL)
		return append(h, k...)
	case "noop", "version", "stats", "quit":
		return binHeader(binOp[o.Kind][b2i(o.Quiet)], 0, 0, 0, o.Opaque)
	case "get", "gete":
		var out []byte
		ks := o.KS()
		for i, k := range ks {
			oc := uint8(0x00)
			if o.Kind == "gete" || o.E {
				oc = 0x40
			}
			if i < len(o.Quiets) && o.Quiets[i] {
				oc = 0x09
				if o.Kind == "gete" || o.E {
					oc = 0x41
				}
			}
			h := binHeader(oc, len(k), 0, len(k), o.Opaque+uint32(i))
			out = append(out, append(h, k...)...)
		}
		if o.Noop {
			out = append(out, binHeader(0x0a, 0, 0, 0, o.Opaque+uint32(len(ks)))...)
		}
		return out
	}
	panic("wire: cannot encode " + o.Kind + " in binary")
}

// EncodeText produces the request bytes of op in the text protocol.
func EncodeText(o Op) []byte {
	switch o.Kind {
	case "raw":
		return o.Raw
	case "set", "add", "replace", "append", "prepend":
		return []byte(fmt.Sprintf("%s %s %d %d %d\r\n%s\r\n", o.Kind, o.Key, o.Flags, o.TTL, len(o.Data), o.Data))
	case "delete":
		return []byte("delete " + o.Key + "\r\n")
	case "touch":
		return []byte(fmt.Sprintf("touch %s %d\r\n", o.Key, o.TTL))
	case "get":
		return []byte("get " + strings.Join(o.Keys, " ") + "\r\n")
	case "noop", "version", "stats", "quit":
		return []byte(o.Kind + "\r\n")
	}
	panic("wire: cannot encode " + o.Kind + " in text")
}

func b2i(b bool) int {
	if b {
		return 1
	}
	return 0
}

// BinFrame is one decoded binary reply.
type BinFrame struct {
	Opcode uint8
	Status uint16
	Opaque uint32
	Extras []byte
	Key    []byte
	Value  []byte
}

func (f BinFrame) String() string {
	return fmt.Sprintf("{op=%#02x st=%#x opq=%d ext=%x key=%q vlen=%d}", f.Opcode, f.Status, f.Opaque, f.Extras, f.Key, len(f.Value))
}

// ParseBinary strictly decodes as many complete reply frames as buf holds. rest is
// the undecoded tail (an incomplete frame); err is a framing violation.
func ParseBinary(buf []byte) (frames []BinFrame, rest []byte, err error) {
	for len(buf) > 0 {
		if buf[0] != 0x81 {
			return frames, buf, fmt.Errorf("reply frame starts with %#02x, want magic 0x81", buf[0])
		}
		if len(buf) < 24 {
			return frames, buf, nil
		}
		kl := int(binary.BigEndian.Uint16(buf[2:4]))
		el := int(buf[4])
		total := int(binary.BigEndian.Uint32(buf[8:12]))
		if buf[5] != 0 {
			return frames, buf, fmt.Errorf("reply frame has data type %#02x, want 0", buf[5])
		}
		if kl+el > total {
			return frames, buf, fmt.Errorf("reply frame lengths inconsistent: key %d + extras %d > total body %d", kl, el, total)
		}
		if total > 256<<20 {
			return frames, buf, fmt.Errorf("reply frame declares an absurd body of %d bytes", total)
		}
		if len(buf) < 24+total {
			return frames, buf, nil
		}
		body := buf[24 : 24+total]
		frames = append(frames, BinFrame{
			Opcode: buf[1], Status: binary.BigEndian.Uint16(buf[6:8]), Opaque: binary.BigEndian.Uint32(buf[12:16]),
			Extras: append([]byte(nil), body[:el]...), Key: append([]byte(nil), body[el:el+kl]...), Value: append([]byte(nil), body[el+kl:]...),
		})
		buf = buf[24+total:]
	}
	return frames, nil, nil
}

// TextFrame is one decoded text reply element: a status line or a VALUE block.
type TextFrame struct {
	Line  string // the line without CRLF ("VALUE k f n" for a value block)
	IsVal bool
	Key   string
	Flags uint32
	Data  []byte
}

func (f TextFrame) String() string {
	if f.IsVal {
		return fmt.Sprintf("{VALUE %q flags=%d len=%d}", f.Key, f.Flags, len(f.Data))
	}
	return fmt.Sprintf("{%q}", f.Line)
}

// ParseText strictly decodes text replies: every line must end in CRLF, a VALUE
// header must be followed by exactly the announced number of bytes and CRLF.
func ParseText(buf []byte) (frames []TextFrame, rest []byte, err error) {
	for len(buf) > 0 {
		i := bytes.IndexByte(buf, '\n')
		if i < 0 {
			return frames, buf, nil
		}
		if i == 0 || buf[i-1] != '\r' {
			return frames, buf, fmt.Errorf("reply line %q ends in a bare LF", string(buf[:i]))
		}
		line := string(buf[:i-1])
		if strings.ContainsAny(line, "\r\n") {
			return frames, buf, fmt.Errorf("reply line %q contains a stray CR/LF", line)
		}
		if strings.HasPrefix(line, "VALUE ") {
			parts := strings.Split(line, " ")
			if len(parts) != 4 {
				return frames, buf, fmt.Errorf("malformed VALUE line %q", line)
			}
			fl, e1 := strconv.ParseUint(parts[2], 10, 32)
			n, e2 := strconv.ParseUint(parts[3], 10, 32)
			if e1 != nil || e2 != nil {
				return frames, buf, fmt.Errorf("malformed VALUE line %q", line)
			}
			need := i + 1 + int(n) + 2
			if len(buf) < need {
				return frames, buf, nil
			}
			data := buf[i+1 : i+1+int(n)]
			if buf[need-2] != '\r' || buf[need-1] != '\n' {
				return frames, buf, fmt.Errorf("data block of %q is not followed by CRLF", line)
			}
			frames = append(frames, TextFrame{Line: line, IsVal: true, Key: parts[1], Flags: uint32(fl), Data: append([]byte(nil), data...)})
			buf = buf[need:]
			continue
		}
		frames = append(frames, TextFrame{Line: line})
		buf = buf[i+1:]
	}
	return frames, nil, nil
}
