// Package mcfake is the simulated memcached: a passive binary-protocol state
// machine (the kernel feeds it request bytes and takes reply bytes) over a
// model.Store, written from the memcached binary protocol documentation plus the
// rend GETE/GETEQ extension. It also hosts the standing monitors: request
// well-formedness (rend must never send a malformed frame to a backend) and a
// log of every request received.
package mcfake

import (
	"encoding/binary"
	"fmt"

	"rendsim/model"
)

// opcodes (memcached protocol_binary.h)
const (
	OpGet     = 0x00
	OpSet     = 0x01
	OpAdd     = 0x02
	OpReplace = 0x03
	OpDelete  = 0x04
	OpQuit    = 0x07
	OpGetQ    = 0x09
	OpNoop    = 0x0a
	OpVersion = 0x0b
	OpGetK    = 0x0c
	OpGetKQ   = 0x0d
	OpAppend  = 0x0e
	OpPrepend = 0x0f
	OpSetQ    = 0x11
	OpAddQ    = 0x12
	OpReplQ   = 0x13
	OpDelQ    = 0x14
	OpAppQ    = 0x19
	OpPrepQ   = 0x1a
	OpTouch   = 0x1c
	OpGat     = 0x1d
	OpGatQ    = 0x1e
	OpGetE    = 0x40
	OpGetEQ   = 0x41
)

// status codes
const (
	StOK        = 0x00
	StNotFound  = 0x01
	StExists    = 0x02
	StTooLarge  = 0x03
	StInval     = 0x04
	StNotStored = 0x05
	StUnknown   = 0x81
	StNoMem     = 0x82
	StNotSupp   = 0x83
	StInternal  = 0x84
	StBusy      = 0x85
	StTmpFail   = 0x86
)

var statusText = map[uint16]string{
	StNotFound: "Not found", StExists: "Data exists for key.", StTooLarge: "Too large.",
	StInval: "Invalid arguments", StNotStored: "Not stored.", StUnknown: "Unknown command",
	StNoMem: "Out of memory", StNotSupp: "Not supported", StInternal: "Internal error",
	StBusy: "Busy", StTmpFail: "Temporary failure",
}

// Request is one decoded request frame.
type Request struct {
	Op      uint8
	Key     string
	Extras  []byte
	Value   []byte
	Opaque  uint32
	Flags   uint32 // decoded from extras where applicable
	Exptime uint32
	Raw     int // frame length in bytes
}

func (r Request) String() string {
	return fmt.Sprintf("op=%#02x key=%q vlen=%d flags=%d exp=%d opq=%d", r.Op, r.Key, len(r.Value), r.Flags, r.Exptime, r.Opaque)
}

// Server is one simulated memcached instance (one tier).
type Server struct {
	Name  string
	Store *model.Store

	// GetEAbsolute selects how GETE reports the expiry: absolute unix deadline (true)
	// or remaining seconds when that is at most 30 days (false). 0 always means never.
	GetEAbsolute bool
	// Limits enables memcached's key (250) and item (1 MiB) limits.
	Limits bool

	Log        []Request // every well-formed request received, in order
	LogLimit   int
	Malformed  []string // monitor: malformed frames received from rend
	NRequests  int
	OnRequest  func(s *Server, r *Request) // standing monitors hook
	Refuse     func(key string) uint16     // keys the server persistently refuses with this status (0 = serve)
	WriteCount map[string]int              // number of successful writes per key
}

func New(name string, now func() int64) *Server {
	return &Server{Name: name, Store: model.NewStore(now), Limits: true, GetEAbsolute: true, LogLimit: 4096, WriteCount: map[string]int{}}
}

// Parse extracts the next complete request from buf. It returns the number of
// bytes consumed (0 if the frame is still incomplete).
func (s *Server) Parse(buf []byte) (*Request, int, error) {
	if len(buf) < 24 {
		return nil, 0, nil
	}
	if buf[0] != 0x80 {
		return nil, 0, fmt.Errorf("bad magic %#02x", buf[0])
	}
	keyLen := int(binary.BigEndian.Uint16(buf[2:4]))
	extLen := int(buf[4])
	total := int(binary.BigEndian.Uint32(buf[8:12]))
	if keyLen+extLen > total {
		return nil, 0, fmt.Errorf("inconsistent lengths: key %d + extras %d > total body %d (opcode %#02x)", keyLen, extLen, total, buf[1])
	}
	if total > 64<<20 {
		return nil, 0, fmt.Errorf("absurd total body %d (opcode %#02x)", total, buf[1])
	}
	if len(buf) < 24+total {
		return nil, 0, nil
	}
	r := &Request{Op: buf[1], Opaque: binary.BigEndian.Uint32(buf[12:16]), Raw: 24 + total}
	body := buf[24 : 24+total]
	r.Extras = append([]byte(nil), body[:extLen]...)
	r.Key = string(body[extLen : extLen+keyLen])
	r.Value = append([]byte(nil), body[extLen+keyLen:]...)
	return r, 24 + total, nil
}

func header(op uint8, status uint16, keyLen, extLen, total int, opaque uint32) []byte {
	h := make([]byte, 24, 24+total)
	h[0] = 0x81
	h[1] = op
	binary.BigEndian.PutUint16(h[2:4], uint16(keyLen))
	h[4] = uint8(extLen)
	binary.BigEndian.PutUint16(h[6:8], status)
	binary.BigEndian.PutUint32(h[8:12], uint32(total))
	binary.BigEndian.PutUint32(h[12:16], opaque)
	return h
}

// ErrorReply builds an error reply with memcached's text body.
func ErrorReply(op uint8, status uint16, opaque uint32) []byte {
	txt := statusText[status]
	h := header(op, status, 0, 0, len(txt), opaque)
	return append(h, txt...)
}

func (s *Server) malformed(format string, a ...interface{}) {
	s.Malformed = append(s.Malformed, s.Name+": "+fmt.Sprintf(format, a...))
}

func quietOf(op uint8) (base uint8, quiet bool) {
	switch op {
	case OpGetQ:
		return OpGet, true
	case OpGetKQ:
		return OpGetK, true
	case OpSetQ:
		return OpSet, true
	case OpAddQ:
		return OpAdd, true
	case OpReplQ:
		return OpReplace, true
	case OpDelQ:
		return OpDelete, true
	case OpAppQ:
		return OpAppend, true
	case OpPrepQ:
		return OpPrepend, true
	case OpGatQ:
		return OpGat, true
	case OpGetEQ:
		return OpGetE, true
	}
	return op, false
}

// Apply executes one request atomically and returns the reply bytes (possibly none).
func (s *Server) Apply(r *Request) []byte {
	s.NRequests++
	base, quiet := quietOf(r.Op)
	// decode extras / validate shape
	wantExt := 0
	switch base {
	case OpSet, OpAdd, OpReplace:
		wantExt = 8
	case OpTouch, OpGat:
		wantExt = 4
	}
	if len(r.Extras) != wantExt {
		s.malformed("opcode %#02x with %d bytes of extras (want %d)", r.Op, len(r.Extras), wantExt)
		return ErrorReply(r.Op, StInval, r.Opaque)
	}
	switch base {
	case OpSet, OpAdd, OpReplace:
		r.Flags = binary.BigEndian.Uint32(r.Extras[0:4])
		r.Exptime = binary.BigEndian.Uint32(r.Extras[4:8])
	case OpTouch, OpGat:
		r.Exptime = binary.BigEndian.Uint32(r.Extras[0:4])
	}
	switch base {
	case OpGet, OpGetK, OpGetE, OpDelete, OpTouch, OpGat:
		if len(r.Value) != 0 {
			s.malformed("opcode %#02x with a %d byte value", r.Op, len(r.Value))
			return ErrorReply(r.Op, StInval, r.Opaque)
		}
		fallthrough
	case OpSet, OpAdd, OpReplace, OpAppend, OpPrepend:
		if len(r.Key) == 0 {
			s.malformed("opcode %#02x with empty key", r.Op)
			return ErrorReply(r.Op, StInval, r.Opaque)
		}
	case OpNoop, OpVersion, OpQuit:
		if len(r.Key) != 0 || len(r.Value) != 0 {
			s.malformed("opcode %#02x with key/value", r.Op)
			return ErrorReply(r.Op, StInval, r.Opaque)
		}
	}
	if len(s.Log) < s.LogLimit {
		s.Log = append(s.Log, *r)
	}
	if s.OnRequest != nil {
		s.OnRequest(s, r)
	}
	if s.Limits {
		if len(r.Key) > 250 {
			return ErrorReply(r.Op, StInval, r.Opaque)
		}
		if len(r.Value) > 1<<20 {
			return ErrorReply(r.Op, StTooLarge, r.Opaque)
		}
	}

	if s.Refuse != nil && r.Key != "" {
		if st := s.Refuse(r.Key); st != 0 {
			return ErrorReply(r.Op, st, r.Opaque)
		}
	}

	fail := func(st uint16) []byte { return ErrorReply(r.Op, st, r.Opaque) }
	okEmpty := func() []byte {
		if quiet {
			return nil
		}
		return header(r.Op, StOK, 0, 0, 0, r.Opaque)
	}
	st := s.Store

	switch base {
	case OpGet, OpGetK, OpGetE:
		e := st.Get(r.Key)
		if e == nil {
			if quiet {
				return nil
			}
			return fail(StNotFound)
		}
		return s.valueReply(r, base, e)
	case OpGat:
		e := st.Gat(r.Key, r.Exptime)
		if e == nil {
			if quiet {
				return nil
			}
			return fail(StNotFound)
		}
		return s.valueReply(r, base, e)
	case OpSet:
		st.Set(r.Key, r.Value, r.Flags, r.Exptime)
		s.WriteCount[r.Key]++
		return okEmpty()
	case OpAdd:
		if st.Add(r.Key, r.Value, r.Flags, r.Exptime) != model.OK {
			return fail(StExists)
		}
		s.WriteCount[r.Key]++
		return okEmpty()
	case OpReplace:
		if st.Replace(r.Key, r.Value, r.Flags, r.Exptime) != model.OK {
			return fail(StNotFound)
		}
		s.WriteCount[r.Key]++
		return okEmpty()
	case OpAppend:
		if st.Append(r.Key, r.Value) != model.OK {
			return fail(StNotStored)
		}
		s.WriteCount[r.Key]++
		return okEmpty()
	case OpPrepend:
		if st.Prepend(r.Key, r.Value) != model.OK {
			return fail(StNotStored)
		}
		s.WriteCount[r.Key]++
		return okEmpty()
	case OpDelete:
		if st.Delete(r.Key) != model.OK {
			return fail(StNotFound)
		}
		return okEmpty()
	case OpTouch:
		e := st.Get(r.Key)
		if e == nil {
			return fail(StNotFound)
		}
		flags := e.Flags
		st.Touch(r.Key, r.Exptime)
		h := header(r.Op, StOK, 0, 4, 4, r.Opaque)
		return binary.BigEndian.AppendUint32(h, flags)
	case OpNoop:
		return header(r.Op, StOK, 0, 0, 0, r.Opaque)
	case OpVersion:
		v := "1.5.6"
		return append(header(r.Op, StOK, 0, 0, len(v), r.Opaque), v...)
	case OpQuit:
		return okEmpty()
	}
	return fail(StUnknown)
}

func (s *Server) valueReply(r *Request, base uint8, e *model.Entry) []byte {
	ext := 4
	if base == OpGetE {
		ext = 8
	}
	kl := 0
	if base == OpGetK {
		kl = len(r.Key)
	}
	h := header(r.Op, StOK, kl, ext, ext+kl+len(e.Value), r.Opaque)
	h = binary.BigEndian.AppendUint32(h, e.Flags)
	if base == OpGetE {
		h = binary.BigEndian.AppendUint32(h, s.geteExp(e))
	}
	if kl > 0 {
		h = append(h, r.Key...)
	}
	return append(h, e.Value...)
}

func (s *Server) geteExp(e *model.Entry) uint32 {
	if e.Deadline == 0 {
		return 0
	}
	if !s.GetEAbsolute {
		rem := e.Deadline - s.Store.Now()
		if rem > 0 && rem <= model.ThirtyDays {
			return uint32(rem)
		}
	}
	return uint32(e.Deadline)
}
