// Package kernel is the simulation kernel: the single choice stream, the world
// of simulated connections and backends, the step loop and fault injection.
package kernel

import (
	"fmt"
	"math/rand/v2"
)

// Choice is one recorded decision.
type Choice struct {
	N int    `json:"n"`
	C int    `json:"c"`
	W string `json:"w,omitempty"`
}

// Source produces raw decisions.
type Source interface {
	Pick(n int, what string) int
}

// Chooser records every decision drawn from a Source. Option 0 is always the
// "plainest" alternative (deliver everything, no fault, first in label order) so
// that shrinking towards zeros simplifies a schedule.
type Chooser struct {
	Src      Source
	Trace    []Choice
	Diverged string // set by a strict replay source
	KeepWhat bool
}

func (c *Chooser) Choose(n int, what string) int {
	if n <= 1 {
		return 0
	}
	v := c.Src.Pick(n, what)
	if v < 0 || v >= n {
		v = 0
	}
	ch := Choice{N: n, C: v}
	if c.KeepWhat {
		ch.W = what
	}
	c.Trace = append(c.Trace, ch)
	return v
}

// Bool draws a boolean that is true with probability num/den (false is option 0).
func (c *Chooser) Bool(num, den int, what string) bool {
	return c.Choose(den, what) >= den-num
}

// Weighted picks an index with the given integer weights; index 0 should be the plainest.
func (c *Chooser) Weighted(w []int, what string) int {
	total := 0
	for _, x := range w {
		total += x
	}
	v := c.Choose(total, what)
	for i, x := range w {
		if v < x {
			return i
		}
		v -= x
	}
	return 0
}

// RandSource is the seeded search source.
type RandSource struct{ R *rand.Rand }

func NewRandSource(seed uint64) *RandSource {
	return &RandSource{R: rand.New(rand.NewPCG(seed, seed^0x9e3779b97f4a7c15))}
}
func (s *RandSource) Pick(n int, what string) int { return s.R.IntN(n) }

// ZeroSource always picks the plainest alternative.
type ZeroSource struct{}

func (ZeroSource) Pick(n int, what string) int { return 0 }

// TraceSource replays recorded decisions. In strict mode a mismatch of the number
// of alternatives is recorded as a divergence; in tolerant mode (used while
// shrinking) out-of-range or missing decisions fall back to 0.
type TraceSource struct {
	T      []Choice
	I      int
	Strict bool
	Div    string
}

func (s *TraceSource) Pick(n int, what string) int {
	if s.I >= len(s.T) {
		if s.Strict && s.Div == "" {
			s.Div = fmt.Sprintf("trace exhausted at decision %d (%s)", s.I, what)
		}
		s.I++
		return 0
	}
	c := s.T[s.I]
	s.I++
	if c.N != n {
		if s.Strict && s.Div == "" {
			s.Div = fmt.Sprintf("decision %d (%s): %d alternatives now, %d recorded", s.I-1, what, n, c.N)
		}
		if c.C < n {
			return c.C
		}
		return 0
	}
	return c.C
}

// SplitMix derives independent seeds.
func SplitMix(x uint64) uint64 {
	x += 0x9e3779b97f4a7c15
	z := x
	z = (z ^ (z >> 30)) * 0xbf58476d1ce4e5b9
	z = (z ^ (z >> 27)) * 0x94d049bb133111eb
	return z ^ (z >> 31)
}

// PrefixSource follows a prefix of decisions and then always picks 0. Together with
// NextPrefix it enumerates the whole choice tree depth first (stateless DFS).
type PrefixSource struct {
	Prefix []Choice
	I      int
}

func (s *PrefixSource) Pick(n int, what string) int {
	if s.I < len(s.Prefix) {
		c := s.Prefix[s.I]
		s.I++
		if c.C < n {
			return c.C
		}
		return 0
	}
	s.I++
	return 0
}

// NextPrefix returns the decision prefix of the next leaf in depth-first order
// after the run that produced trace, or nil when the tree is exhausted.
func NextPrefix(trace []Choice) []Choice {
	for i := len(trace) - 1; i >= 0; i-- {
		if trace[i].C+1 < trace[i].N {
			p := append([]Choice(nil), trace[:i+1]...)
			p[i].C++
			return p
		}
	}
	return nil
}
