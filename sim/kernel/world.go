package kernel

import (
	"fmt"
	"net"
	"sort"
	"strings"
	"sync/atomic"
	"testing/synctest"
	"time"

	"rendsim/mcfake"
	"rendsim/shadow/hub"
	"rendsim/simnet"
)

// Progress is bumped around every quiescence wait; the worker's watchdog (a goroutine
// outside the bubble) uses it to notice a run that stopped making kernel steps,
// e.g. because a rend goroutine spins and never blocks.
var Progress atomic.Uint64

// Fault is one planned backend fault, addressed by the index of the request (as
// received by the tier, over all its connections) it applies to.
type Fault struct {
	Kind   string `json:"kind"`             // status | close_before | close_applied | close_mid | close_after
	Tier   string `json:"tier"`             // "l1" | "l2"
	Index  int    `json:"index"`            // request index on that tier, counted from the moment faults are armed
	Status uint16 `json:"status,omitempty"` // for kind=status
	Cut    int    `json:"cut,omitempty"`    // for close_mid: reply bytes delivered before the close
	Silent bool   `json:"silent,omitempty"` // after the close, writes are swallowed (ECONNRESET on read) instead of EPIPE
}

// StatusNotStoredOnReplace is memcached's NOT_STORED (0x05) as a planned refusal: it fires
// only when the addressed backend request is a REPLACE / REPLACEQ (see Proc).
const StatusNotStoredOnReplace uint16 = 0x05

func (f Fault) String() string {
	switch f.Kind {
	case "status":
		return fmt.Sprintf("%s#%d status %#x", f.Tier, f.Index, f.Status)
	case "close_mid":
		return fmt.Sprintf("%s#%d close after %d reply bytes silent=%v", f.Tier, f.Index, f.Cut, f.Silent)
	}
	return fmt.Sprintf("%s#%d %s silent=%v", f.Tier, f.Index, f.Kind, f.Silent)
}

// Tier is one simulated memcached with its connections.
type Tier struct {
	Name    string
	Addr    string
	Fake    *mcfake.Server
	Up      bool
	Conns   []*BackendConn
	Seen    int // requests received since faults were armed
	Armed   bool
	Faults  map[int]Fault
	Fired   map[string]int
	Dials   int
	Refused int
	// FaultOwner restricts fault indexing to backend connections dialled for that client
	FaultOwner string
}

// BackendConn is the simulated-memcached side of one backend connection.
type BackendConn struct {
	C      *simnet.Conn
	T      *Tier
	inbuf  []byte
	replyQ []byte
	// closeWhenDrained: close the connection once replyQ has been delivered.
	closeWhenDrained bool
	closeSilent      bool
	Dead             bool
	Owner            string // client connection whose accept dialled this backend connection
}

// ClientConn is the simulated-client side of one client connection.
type ClientConn struct {
	C     *simnet.Conn
	Name  string
	Port  string
	Recv  []byte // everything rend has sent on this connection
	Taken int    // prefix of Recv already consumed by the harness
	begun bool
}

// Unread returns the reply bytes not yet consumed by the harness.
func (c *ClientConn) Unread() []byte { return c.Recv[c.Taken:] }

// Consume marks n unread bytes as consumed.
func (c *ClientConn) Consume(n int) { c.Taken += n }

// World is everything the kernel owns during one run.
type World struct {
	Run       *hub.Run
	Ch        *Chooser
	Tiers     map[string]*Tier
	Clients   []*ClientConn
	Listeners map[string]*simnet.Listener
	Steps     int
	MaxSteps  int
	// SegMode: 0 deliver whole messages, 1 bytewise (first bytes of each message), 2 drawn sizes
	SegMode int
	// Interleave: choose among all enabled internal events instead of fixed priority order
	Interleave bool
	// ProcAll: a "proc" event applies every complete request buffered on the connection
	ProcAll bool
	// TimerStep > 0: when nothing else is enabled Settle advances the clock by this much,
	// at most TimerBudget times in a row (needed when pool timers drive progress)
	TimerStep   time.Duration
	TimerBudget int
	// KeepWaiting, if set, is asked before each idle clock advance; false ends the settle early
	KeepWaiting func() bool
	Start       time.Time

	Stat       Stats
	Overrun    bool
	phaseStart int      // value of Steps when the current settle began
	EventLog   []string // only kept when LogEvents
	LogEvents  bool
	nconn      int
	ndial      int
	accepting  string
}

// Stats are per-run reach counters.
type Stats struct {
	BackendReqs   int
	ReplySegments int
	ClientSegs    int
	Releases      int
	FaultsFired   map[string]int
	ClockAdvances int
	SimTime       time.Duration
}

// NewWorld must be called inside the bubble.
func NewWorld(run *hub.Run, ch *Chooser) *World {
	w := &World{Run: run, Ch: ch, Tiers: map[string]*Tier{}, Listeners: map[string]*simnet.Listener{}, MaxSteps: 200000, Start: time.Now()}
	w.Stat.FaultsFired = map[string]int{}
	run.Dialer = w.dial
	return w
}

// Now returns the simulated unix time.
func (w *World) Now() int64 { return time.Now().Unix() }

// AddTier creates a simulated memcached reachable under addr.
func (w *World) AddTier(name, addr string) *Tier {
	t := &Tier{Name: name, Addr: addr, Fake: mcfake.New(name, w.Now), Up: true, Faults: map[int]Fault{}, Fired: map[string]int{}}
	w.Tiers[name] = t
	return t
}

func (w *World) tierByAddr(addr string) *Tier {
	for _, t := range w.Tiers {
		if t.Addr == addr {
			return t
		}
	}
	return nil
}

func (w *World) dial(network, addr string) (net.Conn, error) {
	t := w.tierByAddr(addr)
	if t == nil {
		return nil, fmt.Errorf("simnet: no endpoint %q", addr)
	}
	t.Dials++
	if !t.Up {
		t.Refused++
		return nil, simnet.ErrRefused
	}
	w.nconn++
	c := simnet.NewConn(w.Run, fmt.Sprintf("b%d", w.nconn), "backend", addr)
	t.Conns = append(t.Conns, &BackendConn{C: c, T: t, Owner: w.accepting})
	return c, nil
}

// AddListener creates a listener for ListenAndServe.
func (w *World) AddListener(name string) *simnet.Listener {
	l := simnet.NewListener(name)
	w.Listeners[name] = l
	return l
}

// Connect opens a client connection on the named port and lets rend accept it.
func (w *World) Connect(port string) *ClientConn {
	name := fmt.Sprintf("c%d", len(w.Clients))
	c := simnet.NewConn(w.Run, name, "client", port)
	cc := &ClientConn{C: c, Name: name, Port: port}
	w.Clients = append(w.Clients, cc)
	w.accepting = name
	w.Listeners[port].Push(c)
	return cc
}

// Arm installs the fault plan; request indices count from now.
func (w *World) Arm(faults []Fault) {
	for _, t := range w.Tiers {
		t.Seen = 0
		t.Armed = true
		t.Faults = map[int]Fault{}
	}
	for _, f := range faults {
		if t := w.Tiers[f.Tier]; t != nil {
			t.Faults[f.Index] = f
		}
	}
}

// ArmFor installs the fault plan for the backend connections of one client only.
func (w *World) ArmFor(faults []Fault, owner string) {
	w.Arm(faults)
	for _, t := range w.Tiers {
		t.FaultOwner = owner
	}
}

// Disarm removes all planned faults.
func (w *World) Disarm() {
	for _, t := range w.Tiers {
		t.Armed = false
		t.Faults = map[int]Fault{}
	}
}

// Quiesce waits until every rend goroutine is durably blocked and collects
// what rend wrote to the clients meanwhile.
func (w *World) Quiesce() {
	Progress.Add(1)
	synctest.Wait()
	Progress.Add(1)
	w.Steps++
	// The budget bounds one settle (the steps since the harness last handed something to
	// the system): a system that does not come to rest within it is livelocked. It is not a
	// bound on the run: a long plan with bytewise segmentation of large replies
	// legitimately takes more steps in total.
	if w.Steps-w.phaseStart > w.MaxSteps {
		w.Overrun = true
	}
	for _, c := range w.Clients {
		if b := c.C.TakeOut(); len(b) > 0 {
			c.Recv = append(c.Recv, b...)
			if w.LogEvents {
				w.logf("recv %s %dB %x", c.Name, len(b), fnvSum(b))
			}
		}
	}
}

// Event is one thing the kernel may do next.
type Event struct {
	Label string
	Prio  int
	Owner string // client connection on whose behalf the event happens ("" if shared)
	Kind  string // for the release of a parked goroutine: what it parked on ("lock", "rlock", "after-unlock", ...)
	Obj   string // ... and the object (lock id)
	Do    func()
}

func (w *World) logf(format string, a ...interface{}) {
	if w.LogEvents {
		w.EventLog = append(w.EventLog, fmt.Sprintf("%d ", w.Steps)+fmt.Sprintf(format, a...))
	}
}

// pull moves what rend wrote on a backend connection into the fake's parse buffer.
func (b *BackendConn) pull() {
	if out := b.C.TakeOut(); len(out) > 0 && !b.Dead {
		b.inbuf = append(b.inbuf, out...)
	}
}

func (b *BackendConn) kill(silent bool) {
	b.Dead = true
	b.replyQ = nil
	b.inbuf = nil
	if silent {
		b.C.PeerClose(simnet.PeerClosedSilent)
	} else {
		b.C.PeerClose(simnet.PeerClosed)
	}
}

// hasRequest reports whether a complete request (or garbage) is buffered.
func (b *BackendConn) hasRequest() bool {
	if b.Dead || len(b.inbuf) == 0 {
		return false
	}
	_, n, err := b.T.Fake.Parse(b.inbuf)
	return n > 0 || err != nil
}

// procOne applies the next buffered request, honouring the fault plan.
func (w *World) procOne(b *BackendConn) {
	t := b.T
	req, n, err := t.Fake.Parse(b.inbuf)
	if err != nil {
		t.Fake.Malformed = append(t.Fake.Malformed, fmt.Sprintf("%s on %s: %v", t.Name, b.C.Name, err))
		w.logf("proc %s malformed: %v", b.C.Name, err)
		b.kill(false)
		return
	}
	if n == 0 {
		return
	}
	b.inbuf = b.inbuf[n:]
	if b.closeWhenDrained {
		// the connection is going away after the bytes already queued: nothing that
		// arrives now is executed or answered
		w.logf("proc %s %s dropped (connection closing)", b.C.Name, req)
		return
	}
	w.Stat.BackendReqs++
	idx := -1
	if t.Armed && (t.FaultOwner == "" || t.FaultOwner == b.Owner) {
		idx = t.Seen
		t.Seen++
	}
	f, faulty := t.Faults[idx]
	if idx < 0 {
		faulty = false
	}
	if faulty && f.Kind == "status" && (req.Op == mcfake.OpNoop || req.Op == mcfake.OpVersion || req.Op == mcfake.OpQuit) {
		// memcached has no way to refuse these: the planned refusal does not happen
		delete(t.Faults, idx)
		faulty = false
	}
	if faulty && f.Kind == "status" && f.Status == StatusNotStoredOnReplace && req.Op != mcfake.OpReplace && req.Op != mcfake.OpReplQ {
		// NOT_STORED is a refusal only in answer to a replace; to any other command it would
		// be a (false) statement about the key: the planned refusal does not happen
		delete(t.Faults, idx)
		faulty = false
	}
	if faulty {
		delete(t.Faults, idx)
		w.Stat.FaultsFired[f.Kind]++
		t.Fired[f.Kind]++
		w.logf("proc %s %s FAULT %s", b.C.Name, req, f)
		switch f.Kind {
		case "status":
			b.replyQ = append(b.replyQ, mcfake.ErrorReply(req.Op, f.Status, req.Opaque)...)
		case "close_before":
			b.kill(f.Silent)
		case "close_applied":
			t.Fake.Apply(req)
			b.kill(f.Silent)
		case "close_mid":
			rep := t.Fake.Apply(req)
			cut := f.Cut
			if cut > len(rep) {
				cut = len(rep)
			}
			b.replyQ = append(b.replyQ, rep[:cut]...)
			b.closeWhenDrained, b.closeSilent = true, f.Silent
			if len(b.replyQ) == 0 {
				b.kill(f.Silent)
			}
		case "close_after":
			rep := t.Fake.Apply(req)
			b.replyQ = append(b.replyQ, rep...)
			b.closeWhenDrained, b.closeSilent = true, f.Silent
			if len(b.replyQ) == 0 {
				b.kill(f.Silent)
			}
		}
		return
	}
	rep := t.Fake.Apply(req)
	w.logf("proc %s %s -> %d bytes", b.C.Name, req, len(rep))
	if !b.closeWhenDrained {
		b.replyQ = append(b.replyQ, rep...)
	}
}

// segment draws how many of n pending bytes to deliver next.
func (w *World) segment(n int, what string) int {
	if n <= 1 {
		return n
	}
	switch w.SegMode {
	case 1:
		return 1
	case 2:
		switch w.Ch.Weighted([]int{5, 2, 2, 1}, "seg "+what) {
		case 0:
			return n
		case 1:
			return 1
		case 2:
			return 1 + w.Ch.Choose(n, "seglen "+what)
		default:
			if n > 24 {
				return 24
			}
			return n
		}
	}
	return n
}

func (w *World) deliverReply(b *BackendConn) {
	k := w.segment(len(b.replyQ), b.C.Name)
	b.C.Deliver(b.replyQ[:k])
	b.replyQ = b.replyQ[k:]
	w.Stat.ReplySegments++
	w.logf("reply %s %dB (%d left)", b.C.Name, k, len(b.replyQ))
	if len(b.replyQ) == 0 && b.closeWhenDrained {
		b.kill(b.closeSilent)
	}
}

// BackendConns returns all backend connections in creation order.
func (w *World) BackendConns() []*BackendConn {
	var all []*BackendConn
	names := make([]string, 0, len(w.Tiers))
	for n := range w.Tiers {
		names = append(names, n)
	}
	sort.Strings(names)
	for _, n := range names {
		all = append(all, w.Tiers[n].Conns...)
	}
	sort.SliceStable(all, func(i, j int) bool { return connNum(all[i].C.Name) < connNum(all[j].C.Name) })
	return all
}

func connNum(s string) int {
	n := 0
	fmt.Sscanf(strings.TrimLeft(s, "bc"), "%d", &n)
	return n
}

// Internal returns the enabled internal events (everything except client sends,
// clock advances and harness-driven faults), in a stable order.
func (w *World) Internal() []Event {
	var evs []Event
	for _, p := range w.Run.ParkedList() {
		if p.Ready != nil && !p.Ready() {
			continue
		}
		p := p
		evs = append(evs, Event{Label: "release " + p.Label(), Prio: 0, Owner: p.Who, Kind: p.Kind, Obj: p.Obj, Do: func() {
			out := 0
			if p.N > 1 {
				out = w.Ch.Choose(p.N, p.Label())
			}
			w.Stat.Releases++
			if p.Kind == "dial" {
				// De-synchronise periodic timers: goroutines that sleep for equal periods
				// (the pool monitors of two relays, reconnect loops) would otherwise wake at
				// the same simulated instant and race outside the kernel's control. Every
				// dial completes after a nudge that is a distinct power of two, so the
				// phases of any two such loops (sums over disjoint sets of dials) differ.
				time.Sleep(time.Duration(1<<(w.ndial%22)) * time.Nanosecond)
				w.ndial++
			}
			w.logf("release %s -> %d", p.Label(), out)
			w.Run.Release(p, out)
		}})
	}
	for _, c := range w.Clients {
		c := c
		if c.C.NeedsCloseWake() {
			evs = append(evs, Event{Label: "closewake " + c.C.Name, Prio: 0, Owner: c.Name, Do: func() { w.logf("closewake %s", c.C.Name); c.C.WakeClosed() }})
		}
	}
	for _, b := range w.BackendConns() {
		b := b
		if b.C.NeedsCloseWake() {
			evs = append(evs, Event{Label: "closewake " + b.C.Name, Prio: 0, Owner: b.Owner, Do: func() { w.logf("closewake %s", b.C.Name); b.C.WakeClosed() }})
		}
		if b.Dead {
			b.C.TakeOut()
			continue
		}
		b.pull()
		if b.hasRequest() {
			evs = append(evs, Event{Label: "proc " + b.C.Name, Prio: 1, Owner: b.Owner, Do: func() {
				w.procOne(b)
				for w.ProcAll && b.hasRequest() {
					w.procOne(b)
				}
			}})
		}
		if len(b.replyQ) > 0 {
			evs = append(evs, Event{Label: "reply " + b.C.Name, Prio: 2, Owner: b.Owner, Do: func() { w.deliverReply(b) }})
		}
	}
	return evs
}

// Settle runs internal events until none is enabled. It returns false if the step
// budget was exhausted.
func (w *World) Settle() bool {
	idle := 0
	w.phaseStart = w.Steps
	for {
		w.Quiesce()
		if w.Overrun {
			return false
		}
		evs := w.Internal()
		if len(evs) == 0 {
			if w.TimerStep > 0 && idle < w.TimerBudget && (w.KeepWaiting == nil || w.KeepWaiting()) {
				idle++
				w.Advance(w.TimerStep)
				continue
			}
			return true
		}
		idle = 0
		var e Event
		if w.Interleave {
			e = evs[w.Ch.Choose(len(evs), "event")]
		} else {
			e = evs[0]
			for _, x := range evs[1:] {
				if x.Prio < e.Prio {
					e = x
				}
			}
		}
		e.Do()
	}
}

// StepOne performs exactly one enabled internal event chosen by the chooser among
// the given extra events plus the internal ones. It returns false when nothing is enabled.
func (w *World) StepOne(extra []Event) bool {
	w.Quiesce()
	evs := append(w.Internal(), extra...)
	if len(evs) == 0 {
		return false
	}
	evs[w.Ch.Choose(len(evs), "event")].Do()
	return true
}

// Advance moves the simulated clock; rend timers inside the interval fire at their instants.
func (w *World) Advance(d time.Duration) {
	time.Sleep(d)
	w.Stat.ClockAdvances++
	w.Stat.SimTime += d
}

// Send delivers client bytes in kernel-chosen segments, settling after each one.
func (w *World) Send(c *ClientConn, data []byte) bool {
	sent := 0
	for len(data) > 0 {
		k := len(data)
		switch w.SegMode {
		case 1:
			// bytewise for the first bytes of a message, then the rest at once
			if sent < 40 {
				k = 1
			}
		case 2:
			k = w.segment(len(data), c.Name)
		}
		sent += k
		w.Deliver(c, data[:k])
		data = data[k:]
		w.Stat.ClientSegs++
		w.logf("send %s %dB (%d left)", c.Name, k, len(data))
		if !w.Settle() {
			return false
		}
	}
	return true
}

// Teardown ends the run: clients go away, accept loops end, parked goroutines exit.
func (w *World) Teardown() {
	w.Run.SetClosing()
	for _, c := range w.Clients {
		c.C.PeerClose(simnet.PeerClosed)
	}
	for _, l := range w.Listeners {
		l.Shutdown()
	}
	synctest.Wait()
	w.Run.ReleaseAllForTeardown()
	// Backend connections are deliberately left open: a goroutine still blocked
	// reading from one simply leaks with the bubble (bounded by worker recycling),
	// whereas an injected EOF at this point would exercise rend's error paths outside
	// of any oracle.
	synctest.Wait()
}

func fnvSum(b []byte) uint32 {
	h := uint32(2166136261)
	for _, c := range b {
		h ^= uint32(c)
		h *= 16777619
	}
	return h
}

// SendCuts delivers client bytes cut exactly at the given stream offsets, settling after each piece.
func (w *World) SendCuts(c *ClientConn, data []byte, cuts []int) bool {
	prev := 0
	for _, cut := range append(append([]int{}, cuts...), len(data)) {
		if cut <= prev || cut > len(data) {
			continue
		}
		w.Deliver(c, data[prev:cut])
		w.Stat.ClientSegs++
		w.logf("send %s %dB (cut at %d)", c.Name, cut-prev, cut)
		prev = cut
		if !w.Settle() {
			return false
		}
	}
	return true
}

// Deliver hands client bytes to rend. The very first byte of a connection is
// delivered on its own and the world is allowed to quiesce before the rest follows:
// rend's protocol detection peeks one byte on a temporary goroutine, and only then
// starts the connection loop; delivering more at once would let the temporary
// goroutine buffer the whole request, the loop goroutine would never touch the
// simulated socket and could not be attributed to its connection.
func (w *World) Deliver(c *ClientConn, data []byte) {
	if !c.begun && len(data) > 0 {
		c.begun = true
		c.C.Deliver(data[:1])
		w.Quiesce()
		data = data[1:]
	}
	if len(data) > 0 {
		c.C.Deliver(data)
	}
}

// DialBackend opens a backend connection to the named tier for a handler the
// harness constructs itself (handler-level simulations).
func (w *World) DialBackend(tier, owner string) *simnet.Conn {
	w.accepting = owner
	c, err := w.dial("unix", w.Tiers[tier].Addr)
	if err != nil {
		return nil
	}
	return c.(*simnet.Conn)
}

// KillBackend closes a backend connection from the backend's side (fault injection).
func (w *World) KillBackend(b *BackendConn, silent bool) {
	w.logf("cut %s silent=%v", b.C.Name, silent)
	b.kill(silent)
}
