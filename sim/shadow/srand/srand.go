// Package srand replaces "math/rand" in rend packages compiled for simulation.
// A *Rand behaves like the real one (seeded, in a run, from the deterministic
// scrand stream through rend's own randSeed), except that Intn called from
// batched.(*relay).submit parks: the kernel chooses the pooled connection and
// thereby also serialises callers that were woken together.
package srand

import (
	"fmt"
	real "math/rand"
	"strings"

	"rendsim/shadow/hub"
)

// Rand shadows math/rand.Rand.
type Rand struct {
	*real.Rand
	run *hub.Run
	id  string
}

// New shadows math/rand.New.
func New(src real.Source) *Rand {
	r := &Rand{Rand: real.New(src)}
	if run := hub.Current(); run != nil {
		r.run = run
		r.id = fmt.Sprintf("R%d", run.NextID("rand"))
	}
	return r
}

// Intn shadows (*math/rand.Rand).Intn.
func (r *Rand) Intn(n int) int {
	run := hub.Current()
	if run != nil && run == r.run && run.ParkSubmit && n > 0 {
		if strings.HasSuffix(hub.CallerPkgFunc(), "batched.(*relay).submit") {
			v := run.Park(&hub.Parked{Kind: "submit", Obj: r.id, Who: run.WhoAmI(), N: n})
			// keep the underlying generator in step
			r.Rand.Intn(n)
			return v % n
		}
		// rend shares one Rand between a pooled connection's batcher and its recovery
		// goroutine; the kernel serialises their draws (distinct labels per method)
		run.Park(&hub.Parked{Kind: "rand", Obj: r.id, Detail: fmt.Sprintf("Intn(%d)", n)})
	}
	return r.Rand.Intn(n)
}

// Int31 shadows (*math/rand.Rand).Int31.
func (r *Rand) Int31() int32 {
	run := hub.Current()
	if run != nil && run == r.run && run.ParkSubmit {
		run.Park(&hub.Parked{Kind: "rand", Obj: r.id, Detail: "Int31"})
	}
	return r.Rand.Int31()
}
