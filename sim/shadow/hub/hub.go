// Package hub is the meeting point between the shadow standard-library packages
// that rend is compiled against (ssync, snet, srand, scrand, satomic) and the
// simulation kernel. It owns the notion of "the current run" and the park
// protocol: a rend goroutine that reaches a point the kernel wants to order
// registers a Parked record and blocks (durably, on a channel created inside the
// synctest bubble) until the kernel releases it.
//
// Outside a run every shadow primitive is a plain pass-through.
package hub

import (
	"bytes"
	"net"
	"runtime"
	"sort"
	"strconv"
	"strings"
	"sync"
	"sync/atomic"
)

// Parked is one goroutine waiting for the kernel.
type Parked struct {
	Kind   string // "lock", "dial", "rand", "atomic", ...
	Obj    string // deterministic object label
	Who    string // deterministic label of the waiting goroutine (connection name) or ""
	N      int    // number of outcomes the kernel may choose from (0 = no choice)
	Ready  func() bool
	Grant  func(outcome int) // run by the kernel immediately before waking the goroutine
	Seq    uint64            // registration order within the run
	ch     chan int
	Detail string
}

func (p *Parked) Label() string {
	s := p.Kind + " " + p.Obj
	if p.Who != "" {
		s += " by " + p.Who
	}
	if p.Detail != "" {
		s += " " + p.Detail
	}
	return s
}

// Run is the state shared between the kernel and the shadows for one simulated run.
type Run struct {
	ID uint64

	mu      sync.Mutex
	parked  []*Parked
	seq     uint64
	gnames  map[uint64]string
	objSeq  map[string]int
	closing atomic.Bool

	// ManagePkgs lists rend package path suffixes whose lock operations are
	// kernel-ordered in this run (e.g. "/orcas", "/handlers/inmem", "/metrics").
	ManagePkgs []string
	// YieldAtomics makes every satomic operation called from a managed package park,
	// for goroutines whose name starts with YieldPrefix.
	YieldAtomics bool
	YieldPrefix  string
	// YieldAfterUnlock makes a kernel-granted lock's release a scheduling point too: the
	// releasing goroutine parks right after the release, so the kernel can run others
	// between the end of a critical section and whatever the goroutine does next.
	YieldAfterUnlock bool
	// Poison makes ssync.Pool scribble over objects on Put.
	Poison bool
	// ParkSubmit makes srand Intn calls coming from batched.(*relay).submit park.
	ParkSubmit bool

	// Dialer resolves simulated addresses. Set by the harness.
	Dialer func(network, addr string) (net.Conn, error)

	// Events is an append-only log of interesting shadow-level events
	// (lock acquire/release, pool misuse). Guarded by mu.
	LockLog []LockEvent
	Faults  []string // misuse detected by shadows (double unlock, double Put ...)

	// Rand is the per-run deterministic byte stream behind scrand (guarded by mu).
	RandState uint64
}

type LockEvent struct {
	Lock string
	Who  string
	Op   string // "lock", "rlock", "unlock", "runlock"
}

var cur atomic.Pointer[Run]
var runSeq atomic.Uint64

// Begin installs a new current run.
func Begin(seed uint64) *Run {
	r := &Run{ID: runSeq.Add(1), gnames: map[uint64]string{}, objSeq: map[string]int{}, RandState: seed*2862933555777941757 + 3037000493}
	cur.Store(r)
	return r
}

// End removes the current run. Shadows called afterwards are pass-through.
func End(r *Run) {
	cur.CompareAndSwap(r, nil)
}

// Current returns the active run or nil.
func Current() *Run { return cur.Load() }

// Closing reports whether the run is tearing down.
func (r *Run) Closing() bool { return r.closing.Load() }

// SetClosing marks the run as tearing down: every later Park ends its goroutine.
func (r *Run) SetClosing() { r.closing.Store(true) }

// NextID hands out deterministic per-kind object numbers.
func (r *Run) NextID(kind string) int {
	r.mu.Lock()
	defer r.mu.Unlock()
	r.objSeq[kind]++
	return r.objSeq[kind]
}

// LastID returns the number most recently handed out for kind (0 if none).
func (r *Run) LastID(kind string) int {
	r.mu.Lock()
	defer r.mu.Unlock()
	return r.objSeq[kind]
}

// NameGoroutine associates the calling goroutine with a deterministic label.
func (r *Run) NameGoroutine(name string) {
	g := Goid()
	r.mu.Lock()
	r.gnames[g] = name
	r.mu.Unlock()
}

// WhoAmI returns the label of the calling goroutine ("" if unknown).
func (r *Run) WhoAmI() string {
	g := Goid()
	r.mu.Lock()
	defer r.mu.Unlock()
	return r.gnames[g]
}

// AddFault records misuse detected by a shadow.
func (r *Run) AddFault(s string) {
	r.mu.Lock()
	r.Faults = append(r.Faults, s)
	r.mu.Unlock()
}

func (r *Run) LogLock(e LockEvent) {
	r.mu.Lock()
	r.LockLog = append(r.LockLog, e)
	r.mu.Unlock()
}

// TakeFaults returns and clears recorded misuse.
func (r *Run) TakeFaults() []string {
	r.mu.Lock()
	defer r.mu.Unlock()
	f := r.Faults
	r.Faults = nil
	return f
}

// Park registers p and blocks until the kernel releases it; it returns the
// outcome chosen by the kernel. During teardown it ends the goroutine.
func (r *Run) Park(p *Parked) int {
	if r.closing.Load() {
		runtime.Goexit()
	}
	p.ch = make(chan int, 1)
	r.mu.Lock()
	r.seq++
	p.Seq = r.seq
	r.parked = append(r.parked, p)
	r.mu.Unlock()
	out := <-p.ch
	if out < 0 {
		runtime.Goexit()
	}
	return out
}

// ParkedList returns the parked goroutines sorted by label (then registration order).
func (r *Run) ParkedList() []*Parked {
	r.mu.Lock()
	l := append([]*Parked(nil), r.parked...)
	r.mu.Unlock()
	sort.SliceStable(l, func(i, j int) bool {
		a, b := l[i].Label(), l[j].Label()
		if a != b {
			return a < b
		}
		return l[i].Seq < l[j].Seq
	})
	return l
}

// Release lets the kernel wake p with the given outcome.
func (r *Run) Release(p *Parked, outcome int) {
	r.mu.Lock()
	for i, q := range r.parked {
		if q == p {
			r.parked = append(r.parked[:i], r.parked[i+1:]...)
			break
		}
	}
	r.mu.Unlock()
	if outcome >= 0 && p.Grant != nil {
		p.Grant(outcome)
	}
	p.ch <- outcome
}

// ReleaseAllForTeardown ends every parked goroutine.
func (r *Run) ReleaseAllForTeardown() {
	r.mu.Lock()
	l := r.parked
	r.parked = nil
	r.mu.Unlock()
	for _, p := range l {
		p.ch <- -1
	}
}

// RandBytes fills b from the run's deterministic stream.
func (r *Run) RandBytes(b []byte) {
	r.mu.Lock()
	for i := range b {
		// splitmix64
		r.RandState += 0x9e3779b97f4a7c15
		z := r.RandState
		z = (z ^ (z >> 30)) * 0xbf58476d1ce4e5b9
		z = (z ^ (z >> 27)) * 0x94d049bb133111eb
		z ^= z >> 31
		b[i] = byte(z)
	}
	r.mu.Unlock()
}

// Goid returns the id of the calling goroutine.
func Goid() uint64 {
	var buf [64]byte
	n := runtime.Stack(buf[:], false)
	// "goroutine 123 ["
	s := buf[:n]
	s = s[len("goroutine "):]
	i := bytes.IndexByte(s, ' ')
	id, _ := strconv.ParseUint(string(s[:i]), 10, 64)
	return id
}

// CallerPkgFunc returns the fully qualified function name of the first caller
// outside the rendsim/shadow packages.
func CallerPkgFunc() string {
	var pcs [12]uintptr
	n := runtime.Callers(2, pcs[:])
	frames := runtime.CallersFrames(pcs[:n])
	for {
		f, more := frames.Next()
		if f.Function != "" && !strings.HasPrefix(f.Function, "rendsim/shadow/") {
			return f.Function
		}
		if !more {
			return ""
		}
	}
}

// CallerStack returns the function names of the callers outside the shadow packages.
func CallerStack(max int) []string {
	pcs := make([]uintptr, max+8)
	n := runtime.Callers(2, pcs)
	frames := runtime.CallersFrames(pcs[:n])
	var out []string
	for {
		f, more := frames.Next()
		if f.Function != "" && !strings.HasPrefix(f.Function, "rendsim/shadow/") {
			out = append(out, f.Function)
			if len(out) >= max {
				return out
			}
		}
		if !more {
			return out
		}
	}
}

// Managed reports whether a call coming from function fn (fully qualified) belongs
// to a package whose locks are kernel-ordered in this run.
func (r *Run) Managed(fn string) bool {
	for _, p := range r.ManagePkgs {
		if strings.Contains(fn, p+".") {
			return true
		}
	}
	return false
}
