// Package ssync replaces "sync" in rend packages compiled for simulation.
//
// Mutex / RWMutex: outside a run they are the real primitives. Inside a run they
// are channel based so that a blocked Lock is a durable block for
// testing/synctest, and – when the calling rend package is "managed" in this run –
// every Lock/RLock parks and is granted by the kernel, which thereby decides
// the order of contenders.
//
// Pool: outside a run the real sync.Pool; inside a run a deterministic LIFO
// free list which (optionally) poisons objects on Put so that a use after Put is
// observable.
package ssync

import (
	"fmt"
	"reflect"
	"runtime"
	real "sync"
	"sync/atomic"
	"unsafe"

	"rendsim/shadow/hub"
)

// ---------------------------------------------------------------------------
// lock state (per run)

type lstate struct {
	run     *hub.Run
	id      string
	mu      real.Mutex // protects the fields below; never held while blocking
	writer  bool
	wholder string
	readers int
	managed bool            // the current holder(s) acquired through the kernel
	waiters []chan struct{} // unmanaged waiters (woken on every state change)
}

func (s *lstate) canLock(read bool) bool {
	if read {
		return !s.writer
	}
	return !s.writer && s.readers == 0
}

func (s *lstate) wake() {
	for _, w := range s.waiters {
		select {
		case w <- struct{}{}:
		default:
		}
	}
	s.waiters = nil
}

type lockCore struct {
	st atomic.Pointer[lstate]
}

func (c *lockCore) state(r *hub.Run) *lstate {
	s := c.st.Load()
	if s != nil && s.run == r {
		return s
	}
	ns := &lstate{run: r, id: fmt.Sprintf("L%d", r.NextID("lock"))}
	if c.st.CompareAndSwap(s, ns) {
		return ns
	}
	return c.st.Load()
}

func (c *lockCore) acquire(r *hub.Run, read bool) {
	s := c.state(r)
	fn := hub.CallerPkgFunc()
	who := r.WhoAmI()
	if r.Managed(fn) {
		kind := "lock"
		if read {
			kind = "rlock"
		}
		r.Park(&hub.Parked{
			Kind: kind, Obj: s.id, Who: who,
			Ready: func() bool {
				s.mu.Lock()
				defer s.mu.Unlock()
				return s.canLock(read)
			},
			Grant: func(int) {
				s.mu.Lock()
				if read {
					s.readers++
				} else {
					s.writer = true
					s.wholder = who
				}
				s.managed = true
				s.mu.Unlock()
				r.LogLock(hub.LockEvent{Lock: s.id, Who: who, Op: kind})
			},
		})
		return
	}
	for {
		s.mu.Lock()
		if s.canLock(read) {
			if read {
				s.readers++
			} else {
				s.writer = true
				s.wholder = who
			}
			s.mu.Unlock()
			return
		}
		if r.Closing() {
			s.mu.Unlock()
			runtime.Goexit()
		}
		w := make(chan struct{}, 1)
		s.waiters = append(s.waiters, w)
		s.mu.Unlock()
		<-w
	}
}

func (c *lockCore) release(r *hub.Run, read bool) {
	s := c.state(r)
	s.mu.Lock()
	if read {
		if s.readers <= 0 {
			s.mu.Unlock()
			r.AddFault("RUnlock of lock " + s.id + " that is not read-locked")
			panic("sync: RUnlock of unlocked RWMutex")
		}
		s.readers--
	} else {
		if !s.writer {
			s.mu.Unlock()
			r.AddFault("Unlock of lock " + s.id + " that is not locked")
			panic("sync: unlock of unlocked mutex")
		}
		s.writer = false
		s.wholder = ""
	}
	managed := s.managed
	if !s.writer && s.readers == 0 {
		s.managed = false
	}
	s.wake()
	s.mu.Unlock()
	// whether the release is logged depends on how the lock was acquired, not on the
	// caller: a deferred Unlock that runs while a panic unwinds is called by the runtime
	if managed {
		op := "unlock"
		if read {
			op = "runlock"
		}
		who := r.WhoAmI()
		r.LogLock(hub.LockEvent{Lock: s.id, Who: who, Op: op})
		if r.YieldAfterUnlock && who != "" {
			r.Park(&hub.Parked{Kind: "after-" + op, Obj: s.id, Who: who})
		}
	}
}

// Held reports (for the kernel) whether the lock is currently held in this run.
func (c *lockCore) held(r *hub.Run) (writer bool, readers int, id string) {
	s := c.st.Load()
	if s == nil || s.run != r {
		return false, 0, ""
	}
	s.mu.Lock()
	defer s.mu.Unlock()
	return s.writer, s.readers, s.id
}

// ---------------------------------------------------------------------------

// Mutex shadows sync.Mutex.
type Mutex struct {
	real real.Mutex
	core lockCore
}

func (m *Mutex) Lock() {
	if r := hub.Current(); r != nil {
		m.core.acquire(r, false)
		return
	}
	m.real.Lock()
}

func (m *Mutex) Unlock() {
	if r := hub.Current(); r != nil {
		m.core.release(r, false)
		return
	}
	m.real.Unlock()
}

func (m *Mutex) TryLock() bool {
	if r := hub.Current(); r != nil {
		s := m.core.state(r)
		s.mu.Lock()
		defer s.mu.Unlock()
		if s.canLock(false) {
			s.writer = true
			return true
		}
		return false
	}
	return m.real.TryLock()
}

// Held is used by the harness.
func (m *Mutex) Held(r *hub.Run) (bool, int, string) { return m.core.held(r) }

// RWMutex shadows sync.RWMutex.
type RWMutex struct {
	real real.RWMutex
	core lockCore
}

func (m *RWMutex) Lock() {
	if r := hub.Current(); r != nil {
		m.core.acquire(r, false)
		return
	}
	m.real.Lock()
}

func (m *RWMutex) Unlock() {
	if r := hub.Current(); r != nil {
		m.core.release(r, false)
		return
	}
	m.real.Unlock()
}

func (m *RWMutex) RLock() {
	if r := hub.Current(); r != nil {
		m.core.acquire(r, true)
		return
	}
	m.real.RLock()
}

func (m *RWMutex) RUnlock() {
	if r := hub.Current(); r != nil {
		m.core.release(r, true)
		return
	}
	m.real.RUnlock()
}

func (m *RWMutex) TryLock() bool {
	if r := hub.Current(); r != nil {
		s := m.core.state(r)
		s.mu.Lock()
		defer s.mu.Unlock()
		if s.canLock(false) {
			s.writer = true
			return true
		}
		return false
	}
	return m.real.TryLock()
}

func (m *RWMutex) TryRLock() bool {
	if r := hub.Current(); r != nil {
		s := m.core.state(r)
		s.mu.Lock()
		defer s.mu.Unlock()
		if s.canLock(true) {
			s.readers++
			return true
		}
		return false
	}
	return m.real.TryRLock()
}

func (m *RWMutex) Held(r *hub.Run) (bool, int, string) { return m.core.held(r) }

type rlocker RWMutex

func (l *rlocker) Lock()   { (*RWMutex)(l).RLock() }
func (l *rlocker) Unlock() { (*RWMutex)(l).RUnlock() }

// RLocker returns a Locker whose Lock/Unlock are RLock/RUnlock.
func (m *RWMutex) RLocker() real.Locker { return (*rlocker)(m) }

// ---------------------------------------------------------------------------

// Pool shadows sync.Pool.
type Pool struct {
	New func() any

	real real.Pool
	once real.Once
	st   atomic.Pointer[pstate]
}

type pstate struct {
	run  *hub.Run
	mu   real.Mutex
	free []any
	in   map[uintptr]bool // identity of objects currently in the free list
}

func (p *Pool) state(r *hub.Run) *pstate {
	s := p.st.Load()
	if s != nil && s.run == r {
		return s
	}
	ns := &pstate{run: r, in: map[uintptr]bool{}}
	if p.st.CompareAndSwap(s, ns) {
		return ns
	}
	return p.st.Load()
}

func (p *Pool) Get() any {
	if r := hub.Current(); r != nil {
		s := p.state(r)
		s.mu.Lock()
		if n := len(s.free); n > 0 {
			x := s.free[n-1]
			s.free = s.free[:n-1]
			if id := ident(x); id != 0 {
				delete(s.in, id)
			}
			s.mu.Unlock()
			return x
		}
		s.mu.Unlock()
		if p.New != nil {
			return p.New()
		}
		return nil
	}
	p.once.Do(func() { p.real.New = p.New })
	if p.real.New == nil && p.New != nil {
		p.real.New = p.New
	}
	return p.real.Get()
}

func (p *Pool) Put(x any) {
	if r := hub.Current(); r != nil {
		s := p.state(r)
		if r.Poison {
			poison(x)
		}
		s.mu.Lock()
		if id := ident(x); id != 0 {
			if s.in[id] {
				s.mu.Unlock()
				r.AddFault(fmt.Sprintf("pool: object %T put twice without an intervening Get", x))
				return
			}
			s.in[id] = true
		}
		s.free = append(s.free, x)
		s.mu.Unlock()
		return
	}
	p.real.Put(x)
}

func ident(x any) uintptr {
	v := reflect.ValueOf(x)
	switch v.Kind() {
	case reflect.Ptr, reflect.Slice, reflect.Map, reflect.Chan, reflect.UnsafePointer:
		return v.Pointer()
	}
	return 0
}

// poison scribbles over the memory of pooled header structs and byte slices.
// Other kinds (hash.Hash32, *bytes.Buffer) are left alone: their users reset them.
func poison(x any) {
	v := reflect.ValueOf(x)
	switch v.Kind() {
	case reflect.Slice:
		if b, ok := x.([]byte); ok {
			b = b[:cap(b)]
			for i := range b {
				b[i] = 0xA5
			}
		}
	case reflect.Ptr:
		e := v.Elem()
		if e.Kind() != reflect.Struct {
			return
		}
		// only flat structs of integers (the binprot headers)
		for i := 0; i < e.NumField(); i++ {
			switch e.Field(i).Kind() {
			case reflect.Uint8, reflect.Uint16, reflect.Uint32, reflect.Uint64, reflect.Int, reflect.Int32, reflect.Int64, reflect.Uint:
			default:
				return
			}
		}
		sz := e.Type().Size()
		b := unsafe.Slice((*byte)(unsafe.Pointer(v.Pointer())), sz)
		for i := range b {
			b[i] = 0xA5
		}
	}
}
