// Package satomic replaces "sync/atomic" in rend packages compiled for simulation.
// All operations are the real ones; in runs that set YieldAtomics every operation
// called from a managed package first parks, which makes each atomic operation a
// scheduling point owned by the kernel.
package satomic

import (
	"strings"
	real "sync/atomic"

	"rendsim/shadow/hub"
)

func yield(op string) {
	r := hub.Current()
	if r == nil || !r.YieldAtomics {
		return
	}
	if !r.Managed(hub.CallerPkgFunc()) {
		return
	}
	who := r.WhoAmI()
	if who == "" || !strings.HasPrefix(who, r.YieldPrefix) {
		return
	}
	r.Park(&hub.Parked{Kind: "atomic", Obj: op, Who: who})
}

func AddUint64(addr *uint64, delta uint64) uint64 {
	yield("AddUint64")
	return real.AddUint64(addr, delta)
}
func AddUint32(addr *uint32, delta uint32) uint32 {
	yield("AddUint32")
	return real.AddUint32(addr, delta)
}
func AddInt64(addr *int64, delta int64) int64  { yield("AddInt64"); return real.AddInt64(addr, delta) }
func AddInt32(addr *int32, delta int32) int32  { yield("AddInt32"); return real.AddInt32(addr, delta) }
func LoadUint64(addr *uint64) uint64           { yield("LoadUint64"); return real.LoadUint64(addr) }
func LoadUint32(addr *uint32) uint32           { yield("LoadUint32"); return real.LoadUint32(addr) }
func LoadInt64(addr *int64) int64              { yield("LoadInt64"); return real.LoadInt64(addr) }
func LoadInt32(addr *int32) int32              { yield("LoadInt32"); return real.LoadInt32(addr) }
func StoreUint64(addr *uint64, v uint64)       { yield("StoreUint64"); real.StoreUint64(addr, v) }
func StoreUint32(addr *uint32, v uint32)       { yield("StoreUint32"); real.StoreUint32(addr, v) }
func StoreInt64(addr *int64, v int64)          { yield("StoreInt64"); real.StoreInt64(addr, v) }
func StoreInt32(addr *int32, v int32)          { yield("StoreInt32"); real.StoreInt32(addr, v) }
func SwapUint64(addr *uint64, v uint64) uint64 { yield("SwapUint64"); return real.SwapUint64(addr, v) }
func SwapUint32(addr *uint32, v uint32) uint32 { yield("SwapUint32"); return real.SwapUint32(addr, v) }
func SwapInt64(addr *int64, v int64) int64     { yield("SwapInt64"); return real.SwapInt64(addr, v) }
func SwapInt32(addr *int32, v int32) int32     { yield("SwapInt32"); return real.SwapInt32(addr, v) }
func CompareAndSwapUint64(addr *uint64, o, n uint64) bool {
	yield("CompareAndSwapUint64")
	return real.CompareAndSwapUint64(addr, o, n)
}
func CompareAndSwapUint32(addr *uint32, o, n uint32) bool {
	yield("CompareAndSwapUint32")
	return real.CompareAndSwapUint32(addr, o, n)
}
func CompareAndSwapInt64(addr *int64, o, n int64) bool {
	yield("CompareAndSwapInt64")
	return real.CompareAndSwapInt64(addr, o, n)
}
func CompareAndSwapInt32(addr *int32, o, n int32) bool {
	yield("CompareAndSwapInt32")
	return real.CompareAndSwapInt32(addr, o, n)
}
