// Package snet replaces "net" in rend packages compiled for simulation. Only Dial
// is overridden: inside a run it parks (the kernel decides when the dial
// completes) and then resolves the address in the run's registry of simulated
// endpoints.
package snet

import (
	real "net"

	"rendsim/shadow/hub"
)

// Dial shadows net.Dial.
func Dial(network, address string) (real.Conn, error) {
	r := hub.Current()
	if r == nil || r.Dialer == nil {
		return real.Dial(network, address)
	}
	r.Park(&hub.Parked{Kind: "dial", Obj: address, Who: r.WhoAmI()})
	return r.Dialer(network, address)
}
