// Package scrand replaces "crypto/rand" in rend packages compiled for simulation.
// Read is deterministic: calls made by a goroutine of the current run draw from the
// run's stream; anything else (chunked's token generator, which runs outside any
// bubble) draws from a process-level stream. Token bytes are only ever compared
// for equality and are never logged.
package scrand

import (
	real "crypto/rand"
	"strings"
	"sync"

	"rendsim/shadow/hub"
)

var (
	mu    sync.Mutex
	state uint64 = 0x1234567
)

// Deterministic switches the process-level stream on (the default in the harness).
var Deterministic = true

// Read shadows crypto/rand.Read.
func Read(b []byte) (int, error) {
	if !Deterministic {
		return real.Read(b)
	}
	fn := hub.CallerPkgFunc()
	if r := hub.Current(); r != nil && !strings.Contains(fn, "chunked.genTokens") {
		r.RandBytes(b)
		return len(b), nil
	}
	mu.Lock()
	for i := range b {
		state += 0x9e3779b97f4a7c15
		z := state
		z = (z ^ (z >> 30)) * 0xbf58476d1ce4e5b9
		z = (z ^ (z >> 27)) * 0x94d049bb133111eb
		z ^= z >> 31
		b[i] = byte(z)
	}
	mu.Unlock()
	return len(b), nil
}
