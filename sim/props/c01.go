package props

import (
	"testing"

	"rendsim/kernel"
)

// C01 — single-cache illusion.

func genC01(seed uint64, tier string) Plan {
	g := newGen(seed)
	p := Plan{Prop: "C01", Seed: seed, Cfg: g.cfgStd(), Seg: pick(g, []int{0, 0, 2, 2, 1})}
	p.Conns = g.conns(p.Cfg, 3)
	g.gete = p.Cfg.Shape == "l1only" && p.Cfg.L1 != "chunked"
	nkeys := 1 + g.n(len(keyAlphabet))
	keys := g.keys(nkeys)
	nsteps := 4 + g.n(22)
	if tier == "thorough" {
		nsteps = 4 + g.n(40)
	}
	now := int64(946684800)
	rich := g.p(1, 2)
	var opq uint32 = 100
	for i := 0; i < nsteps; i++ {
		if g.p(1, 7) {
			adv := pick(g, []int64{1, 1, 2, 3, 10, 31 * 86400})
			p.Steps = append(p.Steps, Step{Advance: adv})
			now += adv
			continue
		}
		c := g.n(len(p.Conns))
		op := g.dataOp(p.Conns[c].Proto, keys, now, rich, &opq)
		p.Steps = append(p.Steps, Step{Conn: c, Op: &op})
	}
	return p
}

func execC01(t *testing.T, p Plan, src kernel.Source) Result {
	return execSeq(t, p, src, seqOpts{Replies: true, Tiers: true})
}

func nontrivialSeq(p Plan, r Result) bool {
	// a plan is non-trivial when some command addresses a key an earlier command wrote
	written := map[string]bool{}
	for _, s := range p.Steps {
		if s.Op == nil {
			continue
		}
		switch s.Op.Kind {
		case "set", "add", "replace":
			if written[s.Op.Key] {
				return true
			}
			written[s.Op.Key] = true
		case "get":
			for _, k := range s.Op.Keys {
				if written[k] {
					return true
				}
			}
		default:
			if written[s.Op.Key] {
				return true
			}
		}
	}
	return false
}

func init() {
	register(&Prop{
		ID: "C01", Gen: genC01, Exec: execC01, Nontrivial: nontrivialSeq,
		Rule:      "seeded command sequences (all nine data commands, multi-key and quiet gets, 1-4 colliding keys, value sizes 0..5000, arbitrary flags, TTL classes, clock steps) x deployment shape x locking wrapper x protocol per connection x byte-stream segmentation; a case is non-trivial when a command addresses a key written earlier in the sequence; distinct = distinct plan hash",
		Real:      realFullStack,
		Stub:      stubFullStack,
		RunsQuick: 6000, RunsThorough: 150000,
	})
}
