package props

import (
	"bytes"
	"encoding/binary"
	"fmt"
	"strings"
	"testing"

	"github.com/netflix/rend/handlers/memcached/chunked"

	"rendsim/kernel"
	"rendsim/mcfake"
	"rendsim/wire"
)

// C16, overlap mode: the chunk discipline must also hold when several proxy
// connections write at the same time and the backend refuses some entries.
//
// 2-4 tasks, each with its own chunked handler, backend connection and key (keys of
// different lengths, so a mix-up of per-set state shows as a wrong entry size); the
// kernel interleaves at backend-request and reply granularity; the fault plan makes
// the backend refuse requests (out of memory, busy, ...). The slab monitor sees every
// entry the backend receives; a frame the backend cannot parse (the bytes after a
// header do not match its length fields) is a data entry of the wrong length too.
func execC16Overlap(t *testing.T, p Plan, src kernel.Source) Result {
	return inBubble(t, p.Seed, src, func(w *kernel.World, res *Result) {
		w.LogEvents = p.X["log"] != 0
		w.Interleave = true
		w.ProcAll = false
		w.SegMode = p.Seg
		tier := w.AddTier("l1", "/sim/chunked.sock")
		tier.Fake.Limits = false
		tier.Fake.LogLimit = 1 << 20
		mon := &chunkMon{chunkLens: map[string]int{}}
		tier.Fake.OnRequest = mon.onRequest
		var tasks []*hTask
		for i, prog := range p.Progs {
			tasks = append(tasks, &hTask{h: chunked.NewHandler(w.DialBackend("l1", fmt.Sprintf("t%d", i))), ops: prog, name: fmt.Sprintf("t%d", i)})
		}
		w.Arm(p.Faults)
		viol := func(rule, format string, a ...interface{}) {
			if res.V == nil {
				res.V = &Violation{Prop: "C16", Rule: rule, Class: rule + ":overlap", Msg: fmt.Sprintf(format, a...)}
			}
		}
		desc := func() string {
			var b strings.Builder
			for _, tk := range tasks {
				fmt.Fprintf(&b, " %s:", tk.name)
				for _, op := range tk.ops {
					fmt.Fprintf(&b, " %s(key %d bytes, value %d bytes)", op.Kind, len(op.Key), len(op.Data))
				}
				b.WriteString(";")
			}
			return fmt.Sprintf("tasks%s backend refusals at requests %v", b.String(), p.Faults)
		}
		for {
			w.Quiesce()
			if w.Overrun {
				res.Infra = "step budget exhausted"
				return
			}
			if mon.viol != "" {
				viol("slab", "%s [%s]", mon.viol, desc())
				return
			}
			if len(tier.Fake.Malformed) > 0 {
				viol("stream", "the backend received bytes that are not a well-formed request - an entry's real length differs from what its header announces: %s [%s]", tier.Fake.Malformed[0], desc())
				return
			}
			for _, tk := range tasks {
				if !tk.busy {
					continue
				}
				select {
				case <-tk.done:
					tk.busy = false
					if tk.res.Panic != "" {
						viol("panic", "%s %s panicked: %s", tk.name, tk.ops[tk.next-1], tk.res.Panic)
						return
					}
				default:
				}
			}
			evs := w.Internal()
			for _, tk := range tasks {
				tk := tk
				if tk.busy || tk.next >= len(tk.ops) {
					continue
				}
				evs = append(evs, kernel.Event{Label: "start " + tk.name, Owner: tk.name, Do: func() {
					op := tk.ops[tk.next]
					tk.next++
					tk.busy = true
					tk.done = make(chan struct{})
					go func() {
						tk.res = hcall(tk.h, op, false)
						close(tk.done)
					}()
				}})
			}
			if len(evs) == 0 {
				for _, tk := range tasks {
					if tk.busy {
						viol("hang", "%s %s never returned although the backend answered everything it could parse [%s]", tk.name, tk.ops[tk.next-1], desc())
						return
					}
				}
				break
			}
			evs[w.Ch.Choose(len(evs), "event")].Do()
		}
		// every metadata entry: constant size, chunks = ceil(length / payload), chunk size as
		// the key length dictates
		for _, bk := range tier.Fake.Store.LiveKeys() {
			if !strings.HasSuffix(bk, "-meta") {
				continue
			}
			ck := strings.TrimSuffix(bk, "-meta")
			m := tier.Fake.Store.Peek(bk)
			if m == nil {
				continue
			}
			if len(m.Value) != 40 {
				viol("meta_size", "metadata entry of a %d-byte key has %d bytes", len(ck), len(m.Value))
				return
			}
			length := int(binary.BigEndian.Uint32(m.Value[0:4]))
			n := int(binary.BigEndian.Uint32(m.Value[8:12]))
			csz := int(binary.BigEndian.Uint32(m.Value[12:16]))
			pay := payloadFor(len(ck))
			if want := (length + pay - 1) / pay; n != want {
				viol("chunk_count", "metadata of a %d-byte key records %d chunks for %d bytes (payload %d per chunk, want %d) [%s]", len(ck), n, length, pay, want, desc())
				return
			}
			if csz != pay {
				viol("chunk_size", "metadata of a %d-byte key records chunk size %d, the key length dictates %d [%s]", len(ck), csz, pay, desc())
				return
			}
		}
		res.probe(fmt.Sprintf("overlap_tasks_%d", len(tasks)))
	})
}

var c16Refusals = []uint16{mcfake.StNoMem, mcfake.StBusy, mcfake.StTmpFail, mcfake.StInternal, mcfake.StTooLarge}

func genC16Overlap(seed uint64) Plan {
	g := newGen(seed)
	p := Plan{Prop: "C16", Seed: seed, Mode: "overlap", Seg: pick(g, []int{0, 0, 2})}
	ntasks := 2 + g.n(3)
	used := map[int]bool{}
	var opq uint32 = 10
	nreq := 0
	for i := 0; i < ntasks; i++ {
		kl := 1 + g.n(250)
		for used[kl] {
			kl = 1 + g.n(250)
		}
		used[kl] = true
		key := string(bytes.Repeat([]byte{byte('a' + i)}, kl))
		var prog []wire.Op
		for j := 0; j < 2+g.n(4); j++ {
			opq += 10
			kind := pick(g, []string{"set", "set", "set", "add", "replace", "append", "prepend", "get", "delete"})
			op := wire.Op{Kind: kind, Key: key, Opaque: opq}
			switch kind {
			case "set", "add", "replace":
				op.Data = c05Value(g, kl, g.n(5), g.p(1, 3))
				op.Flags = uint32(g.n(100))
				nreq += 2 + len(op.Data)/payloadFor(kl)
			case "append", "prepend":
				op.Data = g.value(8 + g.n(1200))
				nreq += 4
			case "get":
				op.Key, op.Keys, op.Quiets = "", []string{key}, []bool{false}
				nreq += 2
			default:
				nreq++
			}
			prog = append(prog, op)
		}
		p.Progs = append(p.Progs, prog)
	}
	// 0-4 refusals somewhere in the run's backend requests
	for i := 0; i < g.n(5) && nreq > 0; i++ {
		p.Faults = append(p.Faults, kernel.Fault{Kind: "status", Tier: "l1", Index: g.n(nreq), Status: pick(g, c16Refusals)})
	}
	return p
}

// execC16Foreign: the backend already holds an item that was written with another chunk
// size (another slab configuration, another version). Reading it works; what the
// handler writes when the item is appended / prepended to must again have the size
// that this key's length dictates.
func execC16Foreign(t *testing.T, p Plan, src kernel.Source) Result {
	return inBubble(t, p.Seed, src, func(w *kernel.World, res *Result) {
		tier := w.AddTier("l1", "/sim/chunked.sock")
		tier.Fake.Limits = false
		tier.Fake.LogLimit = 1 << 20
		mon := &chunkMon{chunkLens: map[string]int{}}
		tier.Fake.OnRequest = mon.onRequest
		h := chunked.NewHandler(w.DialBackend("l1", "h0"))
		key := strings.Repeat("f", int(p.X["keylen"]))
		full := int(p.X["foreign_full"]) // value length of the foreign data entries
		pay := full - 16
		value := bytes.Repeat([]byte("0123456789"), int(p.X["vlen"])/10)
		token := []byte("FOREIGN-TOKEN-16")
		n := (len(value) + pay - 1) / pay
		meta := make([]byte, 40)
		binary.BigEndian.PutUint32(meta[0:], uint32(len(value)))
		binary.BigEndian.PutUint32(meta[4:], 5)
		binary.BigEndian.PutUint32(meta[8:], uint32(n))
		binary.BigEndian.PutUint32(meta[12:], uint32(pay))
		binary.BigEndian.PutUint32(meta[16:], uint32(w.Now()))
		copy(meta[24:], token)
		st := tier.Fake.Store
		st.Set(key+"-meta", meta, 5, 0)
		for i := 0; i < n; i++ {
			chunk := make([]byte, full)
			copy(chunk, token)
			end := (i + 1) * pay
			if end > len(value) {
				end = len(value)
			}
			copy(chunk[16:], value[i*pay:end])
			st.Set(fmt.Sprintf("%s-%d", key, i), chunk, 5, 0)
		}
		viol := func(rule, format string, a ...interface{}) {
			if res.V == nil {
				res.V = &Violation{Prop: "C16", Rule: rule, Class: rule + ":foreign", Msg: fmt.Sprintf(format, a...)}
			}
		}
		where := fmt.Sprintf("item of %d bytes under a %d-byte key stored beforehand with %d-byte data entries (this key's length dictates %d)", len(value), len(key), full, slabBudget-71-len(key))
		want := append([]byte{}, value...)
		for i, op := range []wire.Op{
			{Kind: "get", Keys: []string{key}, Quiets: []bool{false}, Opaque: 1},
			{Kind: pickKind(p.X["prepend"]), Key: key, Data: []byte("<<extra>>"), Opaque: 2},
			{Kind: "get", Keys: []string{key}, Quiets: []bool{false}, Opaque: 3},
			{Kind: "append", Key: key, Data: []byte("!"), Opaque: 4},
			{Kind: "get", Keys: []string{key}, Quiets: []bool{false}, Opaque: 5},
		} {
			r, ok := runTask(w, h, op, false)
			if !ok || r.Panic != "" || r.Err != nil {
				viol("failed", "%s: step %d %s did not succeed: ok=%v %s", where, i, op.Kind, ok, r)
				return
			}
			if mon.viol != "" {
				viol("slab", "%s; then %s: %s", where, op.Kind, mon.viol)
				return
			}
			switch op.Kind {
			case "append":
				want = append(want, op.Data...)
			case "prepend":
				want = append(append([]byte{}, op.Data...), want...)
			case "get":
				if len(r.Hits) != 1 || !bytes.Equal(r.Hits[0].Data, want) {
					viol("value", "%s: step %d get returned %d hits / a value that differs from what is stored", where, i, len(r.Hits))
					return
				}
			}
		}
		// after the rewrites the metadata records this key's own payload size and chunk count
		m := st.Peek(key + "-meta")
		if m == nil || len(m.Value) != 40 {
			viol("meta_size", "%s: no 40-byte metadata entry after the rewrites", where)
			return
		}
		own := payloadFor(len(key))
		if cs := int(binary.BigEndian.Uint32(m.Value[12:16])); cs != own {
			viol("chunk_size", "%s: after append / prepend the metadata records chunk size %d, the key length dictates %d", where, cs, own)
			return
		}
		if nc, wantN := int(binary.BigEndian.Uint32(m.Value[8:12])), (len(want)+own-1)/own; nc != wantN {
			viol("chunk_count", "%s: after append / prepend the metadata records %d chunks for %d bytes, want %d", where, nc, len(want), wantN)
			return
		}
		res.probe("foreign_layout_rewrites")
	})
}

func pickKind(prepend int64) string {
	if prepend != 0 {
		return "prepend"
	}
	return "append"
}
