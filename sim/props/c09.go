package props

import "rendsim/wire"

func (e *seqEnv) checkDeadlines(i int, op wire.Op) {
}
