package props

import (
	"fmt"
	"sort"
	"testing"

	"rendsim/kernel"
	"rendsim/stack"
	"rendsim/wire"
)

// C09 — TTL fidelity. After every command the deadline recorded by each simulated
// backend for every entry of every key is compared with the reference map's.

func (e *seqEnv) checkDeadlines(i int, op wire.Op) {
	type tv struct {
		name string
		kind string
		view map[string]tierEntry
		auth bool // the tier that must hold every live key
	}
	var tiers []tv
	if e.plan.Cfg.HasL2() {
		tiers = append(tiers, tv{"l2", e.plan.Cfg.L2, tierView(e.d.L2, e.plan.Cfg.L2), true})
		tiers = append(tiers, tv{"l1", e.plan.Cfg.L1, tierView(e.d.L1, e.plan.Cfg.L1), false})
	} else {
		tiers = append(tiers, tv{"l1", e.plan.Cfg.L1, tierView(e.d.L1, e.plan.Cfg.L1), true})
	}
	class := func(t tv) string { return t.name + "=" + t.kind + "/" + op.Kind }
	for _, t := range tiers {
		keys := make([]string, 0, len(t.view))
		for k := range t.view {
			keys = append(keys, k)
		}
		sort.Strings(keys)
		for _, k := range keys {
			te := t.view[k]
			ref := e.ref.Peek(k)
			if ref == nil {
				e.violate(i, "kept_too_long", class(t), "after %s: %s (%s handler) still holds %q (deadline %s) although the expiry the client last asked for has passed or the key was removed", op, t.name, t.kind, k, e.dl(te.Deadline))
				return
			}
			if te.Deadline != ref.Deadline {
				e.violate(i, "deadline", class(t), "after %s: %s (%s handler) holds %q with expiry %s, the client last asked for %s", op, t.name, t.kind, k, e.dl(te.Deadline), e.dl(ref.Deadline))
				return
			}
			for ci, d := range te.ChunkDl {
				if d != ref.Deadline {
					e.violate(i, "deadline_chunk", class(t), "after %s: %s (chunked) holds chunk %d of %q with expiry %s, the client last asked for %s", op, t.name, ci, k, e.dl(d), e.dl(ref.Deadline))
					return
				}
			}
			if te.MetaExp >= 0 && te.MetaExp != ref.Deadline {
				// the expiry recorded inside the chunk metadata is an internal detail; it
				// becomes observable only when a later append/prepend re-writes the item
				// with it, which the deadline rules above then catch. Count it as reach.
				e.res.probe("chunk_metadata_expiry_stale")
			}
		}
		if t.auth {
			for _, k := range e.ref.LiveKeys() {
				if _, ok := t.view[k]; !ok {
					e.violate(i, "lost_early", class(t), "after %s: %s (%s handler) no longer holds %q, which should live until %s", op, t.name, t.kind, k, e.dl(e.ref.Peek(k).Deadline))
					return
				}
			}
		}
	}
}

func (e *seqEnv) dl(d int64) string {
	if d == 0 {
		return "never"
	}
	return fmt.Sprintf("now%+ds", d-e.w.Now())
}

func genC09(seed uint64, tier string) Plan {
	g := newGen(seed)
	c := stack.Cfg{GetEAbsolute: g.p(1, 2)}
	c.Shape = pick(g, []string{"l1only", "l1l2", "l1l2", "l1l2batch", "l1l2batch"})
	c.L1 = pick(g, []string{"std", "std", "chunked", "chunked", "batched"})
	c.L2 = pick(g, []string{"std", "std", "std", "batched"})
	if c.Shape == "l1only" {
		c.L2 = ""
	}
	if g.p(1, 4) {
		c.Locked = true
		c.MultiReader = g.p(1, 2)
		c.Concurrency = uint8(g.n(3))
	}
	if c.L1 == "batched" || c.L2 == "batched" {
		c.BatchSize = uint32(1 + g.n(4))
		c.BatchDelayMicros = uint32(pick(g, []int{50, 250, 1000}))
		// the pool monitor wakes every BatchEvalSec simulated seconds: with the default
		// of 2 s a 31-day clock jump costs 1.3 million wake-ups, so most runs use a
		// long interval (a legal tuning option) and the others avoid the long jump
		c.BatchEvalSec = uint32(pick(g, []int{0, 1 << 28, 1 << 28, 1 << 28}))
	}
	p := Plan{Prop: "C09", Seed: seed, Cfg: c, Seg: pick(g, []int{0, 0, 2})}
	p.Conns = g.conns(p.Cfg, 3)
	keys := g.keys(1 + g.n(3))
	nsteps := 4 + g.n(16)
	now := int64(946684800)
	var opq uint32 = 100
	for i := 0; i < nsteps; i++ {
		switch {
		case g.p(1, 6):
			adv := pick(g, []int64{1, 1, 2, 3, 6, 31 * 86400})
			if adv > 3600 && (c.L1 == "batched" || c.L2 == "batched") && c.BatchEvalSec == 0 {
				adv = 3100
			}
			p.Steps = append(p.Steps, Step{Advance: adv})
			now += adv
		case c.HasL2() && g.p(1, 6):
			p.Steps = append(p.Steps, Step{Evict: []string{pick(g, append([]string{"*"}, keys...))}})
		case g.p(1, 8):
			// a directed fragment: store (often an empty or tiny value), change the lifetime
			// with touch or get-and-touch, then rewrite the item through append / prepend -
			// the lifetime last asked for has to survive the rewrite
			ci := g.n(len(p.Conns))
			proto := p.Conns[ci].Proto
			k := pick(g, keys)
			opq += 40
			set := wire.Op{Kind: "set", Key: k, Data: g.value(pick(g, []int{0, 0, 1, 3, 1100})), Flags: g.flags(), TTL: g.ttl(now, true), Opaque: opq}
			retime := wire.Op{Kind: pick(g, []string{"touch", "gat"}), Key: k, TTL: g.ttl(now, true), Opaque: opq + 10}
			if proto == "text" {
				set.Opaque, retime.Opaque = 0, 0
				retime.Kind = "touch"
			}
			rewrite := wire.Op{Kind: pick(g, []string{"append", "prepend"}), Key: k, Data: g.value(pick(g, []int{1, 4})), Opaque: opq + 20}
			if proto == "text" {
				rewrite.Opaque = 0
			}
			p.Steps = append(p.Steps, Step{Conn: ci, Op: &set}, Step{Conn: ci, Op: &retime}, Step{Conn: ci, Op: &rewrite})
		default:
			ci := g.n(len(p.Conns))
			op := g.dataOp(p.Conns[ci].Proto, keys, now, true, &opq)
			if c.L1 == "chunked" && (len(op.Data) > 0) && g.p(1, 2) {
				op.Data = g.value(pick(g, []int{1, 500, 1100, 2300}))
			}
			p.Steps = append(p.Steps, Step{Conn: ci, Op: &op})
		}
	}
	return p
}

func execC09(t *testing.T, p Plan, src kernel.Source) Result {
	return execSeq(t, p, src, seqOpts{Deadlines: true})
}

func init() {
	register(&Prop{
		ID: "C09", Gen: genC09, Exec: execC09, Nontrivial: func(p Plan, r Result) bool {
			for _, s := range p.Steps {
				if s.Op != nil && s.Op.TTL != 0 {
					return true
				}
			}
			return false
		},
		Rule:      "seeded command sequences with TTLs from {0, 1-5 s, large relative, 30 days -1/0/+1, absolute near future, absolute around and far beyond 30 days ahead, absolute now/past} incl. touch/gat/append/prepend (and directed fragments: store an empty or small value, re-time it with touch or gat, rewrite it through append / prepend), clock steps (1 s .. 31 days) and L1 evictions x orchestrator (main and batch port, with/without locking) x L1 handler {direct, chunked, batched} x L2 handler {direct, batched} x both GETE expiry encodings; after every command the deadline recorded by each simulated backend for every entry (chunked: metadata, every chunk, and the expiry inside the metadata) is compared with the reference map; non-trivial = some command carries a non-zero TTL",
		Real:      append(append([]string{}, realFullStack...), "handlers/memcached/chunked", "handlers/memcached/batched (pool, batcher, reader, monitor)"),
		Stub:      stubFullStack,
		RunsQuick: 5000, RunsThorough: 120000,
	})
}
