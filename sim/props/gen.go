package props

import (
	"fmt"
	"math/rand/v2"
	"strings"

	"rendsim/model"
	"rendsim/stack"
	"rendsim/wire"
)

// gen is a small helper around the plan-generation PRNG.
type gen struct {
	r    *rand.Rand
	nval int
	busy bool // pool plans: callers also address a key the backend refuses
	gete bool // the deployment serves GETE (L1-only, not the chunking handler): some binary gets use it
}

func newGen(seed uint64) *gen {
	return &gen{r: rand.New(rand.NewPCG(seed, seed*0x9e3779b97f4a7c15+1))}
}

func (g *gen) n(n int) int         { return g.r.IntN(n) }
func (g *gen) p(num, den int) bool { return g.r.IntN(den) < num }
func pick[T any](g *gen, xs []T) T { return xs[g.r.IntN(len(xs))] }

// value returns a value of the requested length whose content is unique in the plan
// (so that every read can be attributed to one write).
func (g *gen) value(n int) []byte {
	g.nval++
	tag := fmt.Sprintf("<%d>", g.nval)
	b := make([]byte, n)
	for i := range b {
		b[i] = tag[i%len(tag)]
	}
	// make longer values position dependent so that misplaced chunks are visible
	for i := len(tag); i < n; i += 97 {
		b[i] = byte('A' + (i/97)%26)
	}
	return b
}

var sizeClasses = []int{1, 2, 5, 17, 64, 300, 1023, 1024, 1100, 2500, 5000}

func (g *gen) size() int {
	switch g.n(10) {
	case 0:
		return 0
	case 1, 2:
		return pick(g, sizeClasses[5:])
	}
	return pick(g, sizeClasses[:5])
}

func (g *gen) flags() uint32 {
	switch g.n(6) {
	case 0:
		return 0
	case 1:
		return 0xffffffff
	case 2:
		return 1 << 31
	}
	return g.r.Uint32()
}

// ttl draws an exptime; now is the simulated unix time at plan start (the plan
// cannot know the exact time of each step, absolute values are placed relative
// to the start plus the clock advances planned so far).
func (g *gen) ttl(now int64, rich bool) uint32 {
	if !rich {
		if g.p(3, 4) {
			return 0
		}
		return uint32(1 + g.n(5))
	}
	switch g.n(14) {
	case 12:
		// absolute, more than 30 days ahead (the only way to ask for that long a lifetime)
		return uint32(now + model.ThirtyDays + 1 + int64(g.n(300*86400)))
	case 13:
		// absolute, around the 30-day mark
		return uint32(now + model.ThirtyDays - 2 + int64(g.n(5)))
	case 0, 1, 2, 3:
		return 0
	case 4, 5:
		return uint32(1 + g.n(5))
	case 6:
		return uint32(10 + g.n(3000))
	case 7:
		return model.ThirtyDays - 1
	case 8:
		return model.ThirtyDays
	case 9:
		return model.ThirtyDays + 1 // absolute, long in the past
	case 10:
		return uint32(now + int64(1+g.n(20))) // absolute future
	default:
		return uint32(now - int64(g.n(5))) // absolute, now or just past
	}
}

var keyAlphabet = []string{"a", "bb", "k3", "key-4"}

// oddKeys are legal keys of both protocols whose bytes mean something to a formatter,
// a shell or a parser: they must come back exactly as they were sent.
var oddKeys = []string{"p%d", "100%", "%s%%x%!", "q{1}[2]", "t\\n", "caf\xc3\xa9", "<&>;|", "%v%v%v%v"}

// keys draws n distinct keys: the plain alphabet, each replaced by an odd key with
// probability 1/4.
func (g *gen) keys(n int) []string {
	if n > len(keyAlphabet) {
		n = len(keyAlphabet)
	}
	ks := append([]string{}, keyAlphabet[:n]...)
	used := map[string]bool{}
	for i := range ks {
		if g.p(1, 4) {
			k := pick(g, oddKeys)
			if !used[k] {
				used[k] = true
				ks[i] = k
			}
		}
	}
	return ks
}

// genCfg draws a deployment for the orchestrator-level properties (std handlers).
func (g *gen) cfgStd() stack.Cfg {
	c := stack.Cfg{L1: "std", L2: "std", GetEAbsolute: g.p(1, 2)}
	c.Shape = pick(g, []string{"l1only", "l1l2", "l1l2", "l1l2batch", "l1l2batch"})
	if g.p(1, 4) {
		// the chunking L1 handler is a deployment option of every shape
		c.L1 = "chunked"
	}
	if g.p(1, 3) {
		c.Locked = true
		c.MultiReader = g.p(1, 2)
		c.Concurrency = uint8(g.n(3))
	}
	return c
}

// genConns draws 1..3 connections suitable for the deployment.
func (g *gen) conns(c stack.Cfg, max int) []ConnSpec {
	n := 1 + g.n(max)
	var cs []ConnSpec
	for i := 0; i < n; i++ {
		port := "main"
		if c.Shape == "l1l2batch" && g.p(1, 2) {
			port = "batch"
		}
		cs = append(cs, ConnSpec{Port: port, Proto: pick(g, []string{"text", "bin"})})
	}
	if c.Shape == "l1l2batch" {
		// make sure both ports are used
		cs[0].Port = "main"
		if len(cs) > 1 {
			cs[1].Port = "batch"
		} else {
			cs = append(cs, ConnSpec{Port: "batch", Proto: pick(g, []string{"text", "bin"})})
		}
	}
	return cs
}

// dataOp draws one data command for a connection using protocol proto.
func (g *gen) dataOp(proto string, keys []string, now int64, richTTL bool, opq *uint32) wire.Op {
	*opq += 10
	op := wire.Op{Opaque: *opq}
	if proto == "text" {
		op.Opaque = 0
	}
	kinds := []string{"set", "set", "set", "add", "replace", "append", "prepend", "delete", "touch", "get", "get", "get", "mget", "mget"}
	if proto == "bin" {
		kinds = append(kinds, "gat", "gat", "qget", "qget")
	}
	k := pick(g, kinds)
	if g.p(1, 60) {
		k = "hugeget"
	}
	op.Key = pick(g, keys)
	switch k {
	case "set", "add", "replace":
		op.Kind = k
		op.Data = g.value(g.size())
		op.Flags = g.flags()
		op.TTL = g.ttl(now, richTTL)
		if proto == "bin" && g.p(1, 8) {
			op.Quiet = true
		}
	case "append", "prepend":
		op.Kind = k
		op.Data = g.value(g.size())
		if proto == "text" {
			// the text protocol carries (ignored) flags and exptime on append/prepend
			op.Flags = g.flags()
			op.TTL = g.ttl(now, richTTL)
		}
		if proto == "bin" && g.p(1, 8) {
			op.Quiet = true
		}
	case "delete":
		op.Kind = k
	case "touch", "gat":
		op.Kind = k
		op.TTL = g.ttl(now, richTTL)
	case "get":
		op.Kind = "get"
		op.Keys = []string{op.Key}
		op.Quiets = []bool{false}
		op.Key = ""
	case "mget":
		op.Kind = "get"
		n := 2 + g.n(3)
		for i := 0; i < n; i++ {
			op.Keys = append(op.Keys, pick(g, keys))
			op.Quiets = append(op.Quiets, false)
		}
		op.Key = ""
		if proto == "bin" {
			// binary multi-key get: GETQ* then GET
			for i := 0; i < n-1; i++ {
				op.Quiets[i] = true
			}
		}
	case "hugeget":
		// a get whose text command line is longer than 4 KiB: some twenty long keys that
		// nobody stores plus a few keys of the alphabet
		op.Kind = "get"
		n := 18 + g.n(8)
		for i := 0; i < n; i++ {
			k := fmt.Sprintf("long-key-%02d-", i) + strings.Repeat("x", 228)
			if g.p(1, 6) {
				k = pick(g, keys)
			}
			op.Keys = append(op.Keys, k)
			op.Quiets = append(op.Quiets, proto == "bin" && i < n-1)
		}
		op.Key = ""
	case "qget":
		op.Kind = "get"
		n := 1 + g.n(4)
		for i := 0; i < n; i++ {
			op.Keys = append(op.Keys, pick(g, keys))
			op.Quiets = append(op.Quiets, true)
		}
		op.Noop = true
		op.Key = ""
	}
	if g.gete && proto == "bin" && op.Kind == "get" && g.p(1, 4) {
		// rend's extension: the same get as GETE / GETEQ (hits carry the expiry)
		op.E = true
	}
	// a multi-key get owns the opaques base..base+n: keep later requests clear of them
	if n := len(op.Keys); n > 8 {
		*opq += uint32(n)
	}
	return op
}
