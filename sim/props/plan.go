// Package props holds one check per property. A run is plan -> execute: the plan is
// explicit data (so it can be stored in a replay file and shrunk structurally),
// the execution happens inside one testing/synctest bubble under the kernel.
package props

import (
	"fmt"
	"hash/fnv"
	"sort"
	"time"

	"rendsim/kernel"
	"rendsim/stack"
	"rendsim/wire"
)

// ConnSpec describes one client connection of a plan.
type ConnSpec struct {
	Port  string `json:"port"`  // main | batch
	Proto string `json:"proto"` // text | bin
}

// Step is one element of a sequential program.
type Step struct {
	Conn    int       `json:"conn,omitempty"`
	Op      *wire.Op  `json:"op,omitempty"`
	Pipe    []wire.Op `json:"pipe,omitempty"`      // several requests sent as one byte stream
	Advance int64     `json:"advance_s,omitempty"` // move the clock by this many seconds
	Evict   []string  `json:"evict,omitempty"`     // drop these keys from L1 ("*" = all)
	CloseAt int       `json:"close_at,omitempty"`  // C15: client closes after this many bytes of Op (−1: before any)
}

func (s Step) String() string {
	switch {
	case s.Op != nil:
		return fmt.Sprintf("c%d: %s", s.Conn, s.Op)
	case len(s.Pipe) > 0:
		return fmt.Sprintf("c%d: pipeline of %d", s.Conn, len(s.Pipe))
	case s.Advance != 0:
		return fmt.Sprintf("advance %ds", s.Advance)
	case s.Evict != nil:
		return fmt.Sprintf("evict L1 %v", s.Evict)
	}
	return "nop"
}

// Plan is everything that defines a run apart from the schedule choices.
type Plan struct {
	Prop   string            `json:"prop"`
	Seed   uint64            `json:"seed"`
	Cfg    stack.Cfg         `json:"cfg"`
	Seg    int               `json:"seg"`
	Conns  []ConnSpec        `json:"conns,omitempty"`
	Steps  []Step            `json:"steps,omitempty"`
	Faults []kernel.Fault    `json:"faults,omitempty"`
	Mode   string            `json:"mode,omitempty"` // property specific sub-mode
	X      map[string]int64  `json:"x,omitempty"`    // property specific numeric knobs
	XS     map[string]string `json:"xs,omitempty"`   // property specific string knobs
	Progs  [][]wire.Op       `json:"progs,omitempty"`
	XV     [][]uint64        `json:"xv,omitempty"` // property specific numeric lists
}

// Clone deep-copies a plan (empty slices become nil, as a JSON round trip would make them).
func (p Plan) Clone() Plan {
	q := p
	q.Conns = append([]ConnSpec(nil), p.Conns...)
	q.Faults = append([]kernel.Fault(nil), p.Faults...)
	if p.Steps != nil {
		q.Steps = make([]Step, len(p.Steps))
		for i, st := range p.Steps {
			q.Steps[i] = st
			if st.Op != nil {
				o := cloneOp(*st.Op)
				q.Steps[i].Op = &o
			}
			q.Steps[i].Pipe = cloneOps(st.Pipe)
			q.Steps[i].Evict = append([]string(nil), st.Evict...)
		}
	}
	if p.X != nil {
		q.X = make(map[string]int64, len(p.X))
		for k, v := range p.X {
			q.X[k] = v
		}
	}
	if p.XS != nil {
		q.XS = make(map[string]string, len(p.XS))
		for k, v := range p.XS {
			q.XS[k] = v
		}
	}
	if p.Progs != nil {
		q.Progs = make([][]wire.Op, len(p.Progs))
		for i, pr := range p.Progs {
			q.Progs[i] = cloneOps(pr)
		}
	}
	if p.XV != nil {
		q.XV = make([][]uint64, len(p.XV))
		for i, v := range p.XV {
			q.XV[i] = append([]uint64(nil), v...)
		}
	}
	return q
}

func cloneOps(ops []wire.Op) []wire.Op {
	if ops == nil {
		return nil
	}
	out := make([]wire.Op, len(ops))
	for i, o := range ops {
		out[i] = cloneOp(o)
	}
	return out
}

func cloneOp(o wire.Op) wire.Op {
	o.Keys = append([]string(nil), o.Keys...)
	o.Quiets = append([]bool(nil), o.Quiets...)
	// Data and Raw are shared: payload bytes are never modified in place (the shrinker
	// re-slices), and enumerations hold hundreds of thousands of plans
	o.KeyB = append([]byte(nil), o.KeyB...)
	if o.KeysB != nil {
		kb := make([][]byte, len(o.KeysB))
		for i, k := range o.KeysB {
			kb[i] = append([]byte(nil), k...)
		}
		o.KeysB = kb
	}
	return o
}

// Violation is a property violation found in a run.
type Violation struct {
	Prop string `json:"property"`
	Rule string `json:"rule"`
	Msg  string `json:"message"`
	Step int    `json:"step"`
	// Class is the fingerprint used to match known findings (rule + what was hit).
	Class string `json:"class"`
}

func (v *Violation) Error() string {
	return fmt.Sprintf("%s/%s at step %d: %s", v.Prop, v.Rule, v.Step, v.Msg)
}

// Result is what one execution reports.
type Result struct {
	V         *Violation      `json:"violation,omitempty"`
	Trace     []kernel.Choice `json:"trace,omitempty"`
	Diverged  string          `json:"diverged,omitempty"`
	KSteps    int             `json:"ksteps"`
	SimMs     int64           `json:"sim_ms"`
	Probes    map[string]int  `json:"probes,omitempty"`
	Fired     map[string]int  `json:"fired,omitempty"`
	States    []uint64        `json:"-"`
	SchedHash uint64          `json:"sched_hash"`
	Trivial   bool            `json:"trivial,omitempty"`
	Infra     string          `json:"infra,omitempty"` // simulator trouble (never a violation)
	Log       []string        `json:"log,omitempty"`
}

func (r *Result) probe(name string) {
	if r.Probes == nil {
		r.Probes = map[string]int{}
	}
	r.Probes[name]++
}

func hash64(parts ...string) uint64 {
	h := fnv.New64a()
	for _, p := range parts {
		h.Write([]byte(p))
		h.Write([]byte{0})
	}
	return h.Sum64()
}

func traceHash(t []kernel.Choice) uint64 {
	h := fnv.New64a()
	var b [8]byte
	for _, c := range t {
		b[0], b[1], b[2], b[3] = byte(c.N), byte(c.N>>8), byte(c.C), byte(c.C>>8)
		h.Write(b[:4])
	}
	return h.Sum64()
}

func sortStrings(s []string) { sort.Strings(s) }

func secs(n int64) time.Duration { return time.Duration(n) * time.Second }
