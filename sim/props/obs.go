package props

import (
	"bytes"
	"encoding/binary"
	"fmt"
	"sort"
	"strings"

	"rendsim/model"
	"rendsim/wire"
)

// ObsVal is one value returned by a get / gat.
type ObsVal struct {
	Idx   int // index of the key in the request (−1 if it cannot be attributed)
	Key   string
	Flags uint32
	Data  []byte
	// GETE replies carry the expiry as well
	HasExp bool
	Exp    uint32
	// reference map only: the entry's deadline (0 = never) and the time of the read
	Deadline, Now int64
}

// Obs is what a client observed as the reply to one command, reduced to what the
// properties talk about.
type Obs struct {
	Status string   // ok | notfound | exists | notstored | none (quiet success) | error:<detail> | closed
	Values []ObsVal // get/gat hits
	Misses []int    // binary: key indices answered with an explicit not-found
	Term   int      // number of terminators seen (END / noop reply)
	// Discipline lists violations of reply discipline (C08) found while decoding.
	Discipline []string
	Incomplete bool // the reply stream ends in the middle of a frame
	Garbage    string
}

func (o Obs) String() string {
	var vs []string
	for _, v := range o.Values {
		vs = append(vs, fmt.Sprintf("%d:%q f=%d len=%d %s", v.Idx, v.Key, v.Flags, len(v.Data), short(v.Data)))
	}
	return fmt.Sprintf("{%s values=[%s] misses=%v term=%d}", o.Status, strings.Join(vs, ", "), o.Misses, o.Term)
}

func short(b []byte) string {
	if len(b) > 16 {
		return fmt.Sprintf("%q..", b[:16])
	}
	return fmt.Sprintf("%q", b)
}

func binStatus(st uint16) string {
	switch st {
	case 0:
		return "ok"
	case 1:
		return "notfound"
	case 2:
		return "exists"
	case 5:
		return "notstored"
	}
	return fmt.Sprintf("error:%#x", st)
}

func textStatus(line string) string {
	switch line {
	case "STORED", "DELETED", "TOUCHED":
		return "ok"
	case "NOT_FOUND":
		return "notfound"
	case "NOT_STORED":
		return "notstored"
	case "EXISTS":
		return "exists"
	}
	return "error:" + line
}

// decodeReply interprets the bytes rend sent in answer to op.
func decodeReply(proto string, op wire.Op, buf []byte, closed bool) Obs {
	var o Obs
	if proto == "text" {
		frames, rest, err := wire.ParseText(buf)
		if err != nil {
			o.Garbage = err.Error()
			o.Discipline = append(o.Discipline, "frame: "+err.Error())
		}
		if len(rest) > 0 && err == nil {
			o.Incomplete = true
		}
		decodeTextFrames(&o, op, frames)
	} else {
		frames, rest, err := wire.ParseBinary(buf)
		if err != nil {
			o.Garbage = err.Error()
			o.Discipline = append(o.Discipline, "frame: "+err.Error())
		}
		if len(rest) > 0 && err == nil {
			o.Incomplete = true
		}
		decodeBinFrames(&o, op, frames)
	}
	finishObs(&o, closed)
	return o
}

func finishObs(o *Obs, closed bool) {
	if closed && (o.Status == "" || o.Status == "none") {
		o.Status = "closed"
	}
	sort.SliceStable(o.Values, func(i, j int) bool { return o.Values[i].Idx < o.Values[j].Idx })
	sort.Ints(o.Misses)
}

func decodeTextFrames(o *Obs, op wire.Op, frames []wire.TextFrame) {
	{
		switch op.Kind {
		case "get":
			usedIdx := map[int]bool{}
			for _, f := range frames {
				switch {
				case f.IsVal:
					if o.Term > 0 {
						o.Discipline = append(o.Discipline, "value after terminator")
					}
					idx := -1
					for i, k := range op.Keys {
						if k == f.Key && !usedIdx[i] {
							idx = i
							usedIdx[i] = true
							break
						}
					}
					if idx < 0 {
						o.Discipline = append(o.Discipline, fmt.Sprintf("VALUE for key %q that was not requested", f.Key))
					}
					o.Values = append(o.Values, ObsVal{Idx: idx, Key: f.Key, Flags: f.Flags, Data: f.Data})
				case f.Line == "END":
					o.Term++
				default:
					o.Status = textStatus(f.Line)
				}
			}
			if o.Status == "" {
				o.Status = "ok"
			}
			if o.Term != 1 && o.Status == "ok" && !o.Incomplete {
				o.Discipline = append(o.Discipline, fmt.Sprintf("get of %d keys ended with %d END lines", len(op.Keys), o.Term))
			}
		default:
			if len(frames) == 0 {
				o.Status = "none"
			} else {
				o.Status = textStatus(frames[0].Line)
				if frames[0].IsVal {
					o.Status = "error:unexpected VALUE"
				}
			}
			if len(frames) > 1 {
				o.Discipline = append(o.Discipline, fmt.Sprintf("%d reply elements for one %s", len(frames), op.Kind))
			}
		}
	}
}

func decodeBinFrames(o *Obs, op wire.Op, frames []wire.BinFrame) {
	{
		switch op.Kind {
		case "get":
			n := len(op.Keys)
			answered := map[int]int{}
			for fi, f := range frames {
				idx := int(int64(f.Opaque) - int64(op.Opaque))
				if f.Opcode == 0x0a {
					o.Term++
					if !op.Noop || idx != n {
						o.Discipline = append(o.Discipline, fmt.Sprintf("noop reply with opaque %d does not match the batch terminator (%d)", f.Opaque, op.Opaque+uint32(n)))
					}
					if fi != len(frames)-1 {
						o.Discipline = append(o.Discipline, "reply after the batch terminator")
					}
					continue
				}
				if idx < 0 || idx >= n {
					o.Discipline = append(o.Discipline, fmt.Sprintf("reply with opaque %d that no request of the batch carries", f.Opaque))
					idx = -1
				} else {
					answered[idx]++
					if answered[idx] > 1 {
						o.Discipline = append(o.Discipline, fmt.Sprintf("key #%d answered %d times", idx, answered[idx]))
					}
				}
				switch f.Status {
				case 0:
					wantExt := 4
					if op.E {
						wantExt = 8 // flags + expiry
					}
					if len(f.Extras) != wantExt {
						o.Discipline = append(o.Discipline, fmt.Sprintf("get hit with %d bytes of extras (want %d)", len(f.Extras), wantExt))
						o.Values = append(o.Values, ObsVal{Idx: idx, Data: f.Value})
						continue
					}
					k := ""
					if idx >= 0 {
						k = op.Keys[idx]
					}
					v := ObsVal{Idx: idx, Key: k, Flags: binary.BigEndian.Uint32(f.Extras), Data: f.Value}
					if op.E {
						v.HasExp, v.Exp = true, binary.BigEndian.Uint32(f.Extras[4:])
					}
					o.Values = append(o.Values, v)
				case 1:
					o.Misses = append(o.Misses, idx)
					if idx >= 0 && idx < len(op.Quiets) && op.Quiets[idx] {
						o.Discipline = append(o.Discipline, fmt.Sprintf("quiet get #%d answered with not-found", idx))
					}
				default:
					o.Status = binStatus(f.Status)
				}
			}
			if o.Status == "" {
				o.Status = "ok"
			}
			if op.Noop && o.Term != 1 && o.Status == "ok" && !o.Incomplete {
				o.Discipline = append(o.Discipline, fmt.Sprintf("quiet batch closed by noop got %d terminators", o.Term))
			}
		case "gat":
			if len(frames) == 0 {
				o.Status = "none"
				break
			}
			f := frames[0]
			if f.Opaque != op.Opaque {
				o.Discipline = append(o.Discipline, fmt.Sprintf("reply opaque %d, request opaque %d", f.Opaque, op.Opaque))
			}
			o.Status = binStatus(f.Status)
			if f.Status == 0 {
				if len(f.Extras) != 4 {
					o.Discipline = append(o.Discipline, fmt.Sprintf("gat hit with %d bytes of extras", len(f.Extras)))
				} else {
					o.Values = append(o.Values, ObsVal{Idx: 0, Key: op.Key, Flags: binary.BigEndian.Uint32(f.Extras), Data: f.Value})
				}
			}
			if len(frames) > 1 {
				o.Discipline = append(o.Discipline, fmt.Sprintf("%d reply frames for one gat", len(frames)))
			}
		default:
			if len(frames) == 0 {
				o.Status = "none"
				break
			}
			f := frames[0]
			if f.Opaque != op.Opaque {
				o.Discipline = append(o.Discipline, fmt.Sprintf("reply opaque %d, request opaque %d", f.Opaque, op.Opaque))
			}
			o.Status = binStatus(f.Status)
			if len(frames) > 1 {
				o.Discipline = append(o.Discipline, fmt.Sprintf("%d reply frames for one %s", len(frames), op.Kind))
			}
		}
	}
}

// Expect is what the reference map says a command must produce.
type Expect struct {
	Outcome model.Outcome
	Hits    []ObsVal // get/gat: the hits, by key index
}

// applyModel executes op on the reference map.
func applyModel(st *model.Store, op wire.Op) Expect {
	var e Expect
	switch op.Kind {
	case "set":
		e.Outcome = st.Set(op.Key, op.Data, op.Flags, op.TTL)
	case "add":
		e.Outcome = st.Add(op.Key, op.Data, op.Flags, op.TTL)
	case "replace":
		e.Outcome = st.Replace(op.Key, op.Data, op.Flags, op.TTL)
	case "append":
		e.Outcome = st.Append(op.Key, op.Data)
	case "prepend":
		e.Outcome = st.Prepend(op.Key, op.Data)
	case "delete":
		e.Outcome = st.Delete(op.Key)
	case "touch":
		e.Outcome = st.Touch(op.Key, op.TTL)
	case "get":
		for i, k := range op.Keys {
			if en := st.Get(k); en != nil {
				e.Hits = append(e.Hits, ObsVal{Idx: i, Key: k, Flags: en.Flags, Data: append([]byte(nil), en.Value...), Deadline: en.Deadline, Now: st.Now()})
			}
		}
	case "gat":
		if en := st.Gat(op.Key, op.TTL); en != nil {
			e.Hits = append(e.Hits, ObsVal{Idx: 0, Key: op.Key, Flags: en.Flags, Data: append([]byte(nil), en.Value...)})
		} else {
			e.Outcome = model.NotFound
		}
	}
	return e
}

// accepted benign-failure statuses per command (memcached's reply ∪ rend's mapping)
func acceptedFailure(kind string, oc model.Outcome) map[string]bool {
	switch kind {
	case "add":
		return map[string]bool{"exists": true, "notstored": true}
	case "replace":
		return map[string]bool{"notfound": true, "notstored": true}
	case "append", "prepend":
		return map[string]bool{"notstored": true, "notfound": true}
	case "delete", "touch", "gat":
		return map[string]bool{"notfound": true}
	}
	return map[string]bool{}
}

// compareOutcome checks the observed reply against the reference map's answer.
// It returns "" when they agree.
func compareOutcome(proto string, op wire.Op, o Obs, e Expect) string {
	switch op.Kind {
	case "set", "add", "replace", "append", "prepend", "delete", "touch":
		if e.Outcome == model.OK {
			if o.Status == "ok" || (o.Status == "none" && op.Quiet && proto == "bin") {
				return ""
			}
			return fmt.Sprintf("reference map: %s succeeds; client saw %s", op.Kind, o.Status)
		}
		if acceptedFailure(op.Kind, e.Outcome)[o.Status] {
			return ""
		}
		return fmt.Sprintf("reference map: %s fails with %s; client saw %s", op.Kind, e.Outcome, o.Status)
	case "gat":
		if len(e.Hits) == 0 {
			if o.Status == "notfound" && len(o.Values) == 0 {
				return ""
			}
			return fmt.Sprintf("reference map: gat misses; client saw %s", o)
		}
		if o.Status != "ok" || len(o.Values) != 1 {
			return fmt.Sprintf("reference map: gat hits (%d bytes, flags %d); client saw %s", len(e.Hits[0].Data), e.Hits[0].Flags, o)
		}
		return cmpVal(o.Values[0], e.Hits[0])
	case "get":
		if o.Status == "ok" {
			// the reply ends the way the protocol says: one END line, one NOOP reply
			if proto == "text" && o.Term != 1 {
				return fmt.Sprintf("text get answered with %d END lines; client saw %s", o.Term, o)
			}
			if proto == "bin" && op.Noop && o.Term != 1 {
				return fmt.Sprintf("quiet batch closed by NOOP got %d NOOP replies; client saw %s", o.Term, o)
			}
		}
		if o.Status != "ok" {
			return fmt.Sprintf("reference map: get answers %d hits; client saw %s", len(e.Hits), o)
		}
		// compare as multisets keyed by key index (binary) or key (text)
		exp := append([]ObsVal(nil), e.Hits...)
		got := append([]ObsVal(nil), o.Values...)
		if proto == "text" {
			// text replies are attributed by key name: compare per key the multiset of values
			key := func(v ObsVal) string { return fmt.Sprintf("%s\x00%d\x00%s", v.Key, v.Flags, v.Data) }
			em, gm := map[string]int{}, map[string]int{}
			for _, v := range exp {
				em[key(v)]++
			}
			for _, v := range got {
				gm[key(v)]++
			}
			for k, n := range em {
				if gm[k] != n {
					return fmt.Sprintf("reference map: get returns %s; client saw %s", fmtVals(exp), fmtVals(got))
				}
			}
			for k, n := range gm {
				if em[k] != n {
					return fmt.Sprintf("reference map: get returns %s; client saw %s", fmtVals(exp), fmtVals(got))
				}
			}
			return ""
		}
		if len(exp) != len(got) {
			return fmt.Sprintf("reference map: get returns %s; client saw %s", fmtVals(exp), fmtVals(got))
		}
		for i := range exp {
			if exp[i].Idx != got[i].Idx {
				return fmt.Sprintf("reference map: get returns %s; client saw %s", fmtVals(exp), fmtVals(got))
			}
			if m := cmpVal(got[i], exp[i]); m != "" {
				return m
			}
		}
		// explicit misses must be exactly the non-quiet keys that are absent
		hit := map[int]bool{}
		for _, v := range exp {
			hit[v.Idx] = true
		}
		var wantMiss []int
		for i := range op.Keys {
			q := i < len(op.Quiets) && op.Quiets[i]
			if !hit[i] && !q {
				wantMiss = append(wantMiss, i)
			}
		}
		if fmt.Sprint(wantMiss) != fmt.Sprint(o.Misses) {
			return fmt.Sprintf("reference map: explicit not-found for keys %v; client saw not-found for %v", wantMiss, o.Misses)
		}
		return ""
	}
	return ""
}

func cmpVal(got, exp ObsVal) string {
	if got.Flags != exp.Flags {
		return fmt.Sprintf("key %q: flags %d returned, %d last written", exp.Key, got.Flags, exp.Flags)
	}
	if !bytes.Equal(got.Data, exp.Data) {
		return fmt.Sprintf("key %q: value differs from last written (got %d bytes %s, want %d bytes %s)", exp.Key, len(got.Data), short(got.Data), len(exp.Data), short(exp.Data))
	}
	if got.HasExp && exp.Now != 0 {
		// GETE: the expiry is 0 exactly for entries that never expire; otherwise it is the
		// deadline, as an absolute time or as the seconds remaining (one second of slack)
		switch {
		case exp.Deadline == 0 && got.Exp != 0:
			return fmt.Sprintf("key %q: gete reports expiry %d for an entry that never expires", exp.Key, got.Exp)
		case exp.Deadline != 0 && got.Exp == 0:
			return fmt.Sprintf("key %q: gete reports no expiry for an entry that expires in %d s", exp.Key, exp.Deadline-exp.Now)
		case exp.Deadline != 0:
			abs := int64(got.Exp) - exp.Deadline
			rem := int64(got.Exp) - (exp.Deadline - exp.Now)
			if (abs < -1 || abs > 1) && (rem < -1 || rem > 1) {
				return fmt.Sprintf("key %q: gete reports expiry %d, the entry expires at %d (in %d s)", exp.Key, got.Exp, exp.Deadline, exp.Deadline-exp.Now)
			}
		}
	}
	return ""
}

func fmtVals(vs []ObsVal) string {
	var s []string
	for _, v := range vs {
		s = append(s, fmt.Sprintf("#%d %q f=%d %s(len %d)", v.Idx, v.Key, v.Flags, short(v.Data), len(v.Data)))
	}
	return "[" + strings.Join(s, ", ") + "]"
}
