package props

import (
	"bytes"
	"encoding/binary"
	"fmt"
	"runtime"
	"runtime/debug"
	"strings"
	"testing"

	"rendsim/kernel"
	"rendsim/simnet"
	"rendsim/stack"
	"rendsim/wire"
)

// C11 — malformed client input is contained to its own connection.

func binHdr(op uint8, keyLen uint16, extLen uint8, total uint32, opaque uint32) []byte {
	h := make([]byte, 24)
	h[0] = 0x80
	h[1] = op
	binary.BigEndian.PutUint16(h[2:4], keyLen)
	h[4] = extLen
	binary.BigEndian.PutUint32(h[8:12], total)
	binary.BigEndian.PutUint32(h[12:16], opaque)
	return h
}

func execC11(t *testing.T, p Plan, src kernel.Source) Result {
	var big bool
	defer func() {
		if big {
			// a frame may legitimately declare (and make rend allocate) gigabytes; give the
			// memory back before the next run so that parallel workers do not pile it up
			debug.FreeOSMemory()
		}
	}()
	return inBubble(t, p.Seed, src, func(w *kernel.World, res *Result) {
		w.LogEvents = p.X["log"] != 0
		w.SegMode = p.Seg
		// containment includes the shared pools of protocol objects: an error path that hands
		// a header back twice lets the damage reach other connections later
		w.Run.Poison = true
		stack.Build(w, p.Cfg, nil)
		viol := func(rule, class, format string, a ...interface{}) {
			if res.V == nil {
				res.V = &Violation{Prop: "C11", Rule: rule, Class: rule + ":" + class, Msg: fmt.Sprintf(format, a...)}
			}
		}
		by := w.Connect("main")
		w.Settle()
		w.Send(by, wire.EncodeText(wire.Op{Kind: "set", Key: "by", Data: []byte("bystander"), Flags: 3}))
		by.Consume(len(by.Unread()))
		base := rendGoroutines()

		victim := w.Connect("main")
		w.Settle()
		raw := p.Steps[0].Pipe[0].Raw
		class := p.XS["class"]
		desc := p.XS["desc"]
		var m0, m1 runtime.MemStats
		runtime.ReadMemStats(&m0)
		if len(raw) > 0 {
			if !w.Send(victim, raw) {
				viol("no_quiescence", class, "%s: no quiescence", desc)
				return
			}
		}
		runtime.ReadMemStats(&m1)
		alloc := int64(m1.TotalAlloc - m0.TotalAlloc)
		if p.X["flood"] != 0 {
			// constant memory per connection includes the connection goroutine's stack: a
			// long run of rejected commands must not make it grow
			if grown := int64(m1.StackInuse) - int64(m0.StackInuse); grown > 256<<10 {
				viol("stack_growth", class, "%s: the goroutine stacks grew by %d bytes while %d rejected commands were answered", desc, grown, p.X["flood"])
				return
			}
		}
		big = alloc > 64<<20
		allowed := int64(1<<20) + 4*p.X["declared"]
		if alloc > allowed {
			viol("allocation", class, "%s: %d bytes were allocated while decoding; the frame consistently declares %d bytes", desc, alloc, p.X["declared"])
			return
		}
		reply := victim.Unread()
		closed := victim.C.ClosedByRend()
		if p.X["contra"] != 0 && !closed && len(reply) == 0 {
			viol("waits_for_bogus_length", class, "%s: the frame's length fields contradict each other, but rend neither answered with an error nor closed the connection - it waits for more input", desc)
			return
		}
		res.probe(fmt.Sprintf("after_input_closed_%v_replied_%v", closed, len(reply) > 0))
		// end of input
		victim.C.PeerClose(simnet.PeerClosed)
		w.Stat.FaultsFired["malformed_input"]++
		if !w.Settle() {
			viol("no_quiescence", class, "%s: no quiescence after EOF", desc)
			return
		}
		if !victim.C.ClosedByRend() {
			viol("not_closed_after_eof", class, "%s: after the client's EOF rend did not close the connection", desc)
			return
		}
		if n := rendGoroutines(); n != base {
			viol("goroutines", class, "%s: %d goroutines executing repository code before the connection, %d after it ended", desc, base, n)
			return
		}
		if faults := w.Run.TakeFaults(); len(faults) > 0 {
			viol("pool_misuse", class, "%s: rend handed a pooled protocol object back twice (%s); it can now be given to two connections at once", desc, strings.Join(faults, "; "))
			return
		}
		// replies, if any, must be well-formed frames of the protocol the first byte selected
		all := victim.Recv
		if len(all) > 0 && len(raw) > 0 {
			var err error
			if raw[0] == 0x80 {
				_, _, err = wire.ParseBinary(all)
			} else if raw[0] >= 'a' && raw[0] <= 'z' {
				_, _, err = wire.ParseText(all)
			}
			if err != nil {
				viol("malformed_reply", class, "%s: rend answered with bytes that are not well-formed replies: %v (%q)", desc, err, trunc(all))
				return
			}
		}
		// other connections keep working
		w.Send(by, wire.EncodeText(wire.Op{Kind: "get", Keys: []string{"by"}}))
		if got := string(by.Unread()); got != "VALUE by 3 9\r\nbystander\r\nEND\r\n" {
			viol("bystander", class, "%s: afterwards another connection's get got %q", desc, trunc([]byte(got)))
			return
		}
		by.Consume(len(by.Unread()))
		fresh := w.Connect("main")
		w.Settle()
		w.Send(fresh, wire.EncodeText(wire.Op{Kind: "get", Keys: []string{"by"}}))
		if got := string(fresh.Unread()); got != "VALUE by 3 9\r\nbystander\r\nEND\r\n" {
			viol("fresh_client", class, "%s: afterwards a new connection's get got %q", desc, trunc([]byte(got)))
		}
	})
}

func c11Plan(id uint64, raw []byte, class, desc string, contra bool, declared int64) Plan {
	p := Plan{Prop: "C11", Seed: id, Cfg: stack.Cfg{Shape: "l1only", L1: "std", GetEAbsolute: true},
		Steps: []Step{{Pipe: []wire.Op{{Kind: "raw", Raw: raw}}}},
		X:     map[string]int64{"declared": declared}, XS: map[string]string{"class": class, "desc": desc}}
	if contra {
		p.X["contra"] = 1
	}
	return p
}

// enumC11: the header grid.
func enumC11(tier string) []Plan {
	var out []Plan
	id := uint64(0xC11000)
	keyLens := []uint16{0, 1, 2, 250, 251, 65535}
	extLens := []uint8{0, 4, 8, 9, 255}
	for op := 0; op < 256; op++ {
		for _, kl := range keyLens {
			for _, el := range extLens {
				need := uint32(kl) + uint32(el)
				totals := []uint32{0, need, need + 1, 1 << 31, 0xffffffff}
				if need > 0 {
					totals = append(totals, need-1)
				}
				for ti, total := range totals {
					contra := total < need
					// body bytes that follow the header
					var follows []int
					if contra {
						follows = []int{0, int(total), int(need), int(need) + 3}
					} else if total <= 70000 {
						follows = []int{0, int(total)}
					} else {
						follows = []int{0, 5}
					}
					for fi, f := range follows {
						id++
						if tier != "thorough" {
							// quick: all contradictory frames for opcodes rend knows, a sample of the rest
							known := op <= 0x1e || op == 0x40 || op == 0x41
							if !(known && contra) && (int(id)+op+ti+fi)%9 != 0 {
								continue
							}
							if !known && (int(id))%5 != 0 {
								continue
							}
						}
						if total >= 1<<31 {
							// consistent giant frames may legitimately allocate what they declare
							// (gigabytes for the set family): keep a few of those, a seventh of the others
							setFamily := (op >= 0x01 && op <= 0x03) || op == 0x0e || op == 0x0f || (op >= 0x11 && op <= 0x13) || op == 0x19 || op == 0x1a
							if (setFamily && id%211 != 0) || (!setFamily && id%7 != 0) {
								continue
							}
						}
						raw := binHdr(uint8(op), kl, el, total, uint32(id))
						if f > 70000 {
							f = 70000
						}
						raw = append(raw, bytes.Repeat([]byte{0x41}, f)...)
						declared := int64(0)
						if !contra {
							declared = int64(total)
						}
						desc := fmt.Sprintf("binary header opcode %#02x key length %d extras length %d total body %d followed by %d bytes", op, kl, el, total, f)
						class := "bin/consistent"
						if contra {
							class = fmt.Sprintf("bin/contradictory/op%#02x", op)
						}
						out = append(out, c11Plan(id, raw, class, desc, contra, declared))
						// the same contradictory frame as the second frame of a quiet-get batch: rend
						// reads the later headers of a batch in another place than the first one
						if contra && fi == 0 && (op == 0x00 || op == 0x09 || op == 0x0a || op == 0x40 || op == 0x41) {
							for _, first := range []uint8{0x09, 0x41} {
								pre := append(binHdr(first, 2, 0, 2, uint32(id)+7), 'k', '1')
								q := c11Plan(id+uint64(first)<<40, append(pre, raw...), fmt.Sprintf("bin/contradictory-in-batch/op%#02x", op), "a quiet get (opcode "+fmt.Sprintf("%#02x", first)+") of key k1 followed by a "+desc, true, 0)
								out = append(out, q)
							}
						}
					}
				}
			}
		}
	}
	return out
}

// genC11: mutations of valid pipelines.
func genC11(seed uint64, tier string) Plan {
	g := newGen(seed)
	proto := pick(g, []string{"text", "bin"})
	var opq uint32 = 100
	var data []byte
	var offsets []int
	n := 1 + g.n(4)
	for i := 0; i < n; i++ {
		offsets = append(offsets, len(data))
		op := g.dataOp(proto, keyAlphabet[:2], 946684800, false, &opq)
		data = append(data, encode(proto, op)...)
	}
	mut := pick(g, []string{"bitflip", "bitflip", "truncate", "length_edit", "garbage_prefix", "garbage", "byte_edit", "dup_tail", "text_number"})
	if g.p(1, 40) {
		mut = "flood"
	}
	flood := 0
	desc := ""
	switch mut {
	case "bitflip":
		k := 1 + g.n(3)
		for i := 0; i < k && len(data) > 0; i++ {
			pos := g.n(len(data))
			if g.p(1, 2) && len(offsets) > 0 {
				pos = pick(g, offsets) + g.n(24)
				if pos >= len(data) {
					pos = len(data) - 1
				}
			}
			data[pos] ^= 1 << uint(g.n(8))
		}
		desc = fmt.Sprintf("%d bit flips in a valid %s pipeline of %d requests", k, proto, n)
	case "truncate":
		cut := g.n(len(data) + 1)
		data = data[:cut]
		desc = fmt.Sprintf("valid %s pipeline of %d requests truncated to %d bytes", proto, n, cut)
	case "length_edit":
		if proto == "bin" {
			off := pick(g, offsets)
			switch g.n(3) {
			case 0:
				binary.BigEndian.PutUint16(data[off+2:], uint16(pick(g, []int{0, 1, 250, 251, 65535, g.n(65536)})))
			case 1:
				data[off+4] = uint8(pick(g, []int{0, 4, 8, 9, 255}))
			default:
				binary.BigEndian.PutUint32(data[off+8:], uint32(pick(g, []int{0, 1, 7, 23, 1 << 20, 1 << 24, 1 << 26})))
			}
			desc = fmt.Sprintf("length field edited in request at offset %d of a valid binary pipeline of %d requests", off, n)
		} else {
			data = bytes.Replace(data, []byte(" 0 "), []byte(pick(g, []string{" 4294967296 ", " -1 ", " 99999999999999999999 ", "  ", " 0x10 "})), 1)
			desc = fmt.Sprintf("numeric field edited in a valid text pipeline of %d requests", n)
		}
	case "garbage_prefix":
		pre := make([]byte, 1+g.n(40))
		for i := range pre {
			pre[i] = byte(g.n(256))
		}
		data = append(pre, data...)
		desc = fmt.Sprintf("%d garbage bytes before a valid %s pipeline", len(pre), proto)
	case "garbage":
		data = make([]byte, 1+g.n(300))
		for i := range data {
			data[i] = byte(g.n(256))
		}
		if g.p(1, 2) {
			data[0] = pick(g, []byte{0x80, 'g', 's', 'a'})
		}
		desc = fmt.Sprintf("%d random bytes (first byte %#02x)", len(data), data[0])
	case "byte_edit":
		pos := g.n(len(data))
		data[pos] = pick(g, []byte{0, '\r', '\n', ' ', 0x80, 0xff})
		desc = fmt.Sprintf("byte %d of a valid %s pipeline replaced by %#02x", pos, proto, data[pos])
	case "flood":
		// a long uninterrupted run of text commands that the parser rejects
		line := pick(g, []string{"get\r\n", "set k 0 0 x\r\n", "set k 0\r\n", "touch k\r\n", "set k x 0 1\r\n", "gat k\r\n"})
		flood = pick(g, []int{4000, 8000, 12000})
		data = bytes.Repeat([]byte(line), flood)
		desc = fmt.Sprintf("%d times the text line %q", flood, line)
	case "dup_tail":
		cut := g.n(len(data) + 1)
		data = append(data, data[cut:]...)
		desc = fmt.Sprintf("tail from offset %d of a valid %s pipeline repeated", cut, proto)
	case "text_number":
		data = []byte(pick(g, []string{
			"set k 0 0 67108864\r\nabc\r\n", "set k 0 0 16777216\r\n", "set k 0 0 4294967296\r\n", "set k 4294967296 0 1\r\na\r\n", "touch k 99999999999\r\n",
			"get " + string(bytes.Repeat([]byte("k "), 3000)) + "\r\n", "set " + string(bytes.Repeat([]byte("k"), 70000)) + " 0 0 1\r\na\r\n",
			"append k 0 0 18446744073709551615\r\n", "\r\n\r\n\r\n", "get\r\n", "set k 0 0 2\r\nabcdef\r\nget k\r\n",
		}))
		desc = fmt.Sprintf("text line %q", trunc(data))
	}
	declared := int64(0)
	// a pipeline may consistently declare large bodies after a length edit; allow what a header says
	if proto == "bin" {
		for _, off := range offsets {
			if off+12 <= len(data) && data[off] == 0x80 {
				declared += int64(binary.BigEndian.Uint32(data[off+8:]))
			}
		}
	}
	if mut == "text_number" || mut == "length_edit" || mut == "bitflip" || mut == "garbage" || mut == "dup_tail" || mut == "byte_edit" || mut == "garbage_prefix" {
		// text lengths, or headers created by the mutation itself: whatever the bytes declare is allowed
		declared += 1 << 33
	}
	if mut == "flood" {
		// every rejected line costs a few small allocations (the line, the reply)
		declared = int64(len(data)) * 64
	}
	p := c11Plan(seed, data, "mutation/"+mut+"/"+proto, desc, false, declared)
	p.Seg = pick(g, []int{0, 2})
	if flood > 0 {
		p.X["flood"] = int64(flood)
		p.Seg = 0
	}
	return p
}

func init() {
	register(&Prop{
		ID: "C11", Gen: genC11, Exec: execC11, Enumerate: enumC11, Level: "fault_enumeration",
		Rule:       "fault = arbitrary / malformed bytes from a client followed by EOF. Enumerated part: binary headers for every opcode 0..255 x key length {0,1,2,250,251,65535} x extras length {0,4,8,9,255} x total body {0, key+extras-1, key+extras, key+extras+1, 2^31, 2^32-1}, followed by 0 / total / key+extras / key+extras+3 body bytes; contradictory get-family and NOOP headers also as the second frame of a GETQ / GETEQ batch (thorough: the whole grid; quick: every contradictory frame for the opcodes rend implements plus a ninth of the rest); seeded part: valid pipelines of both protocols mutated by bit flips (biased to headers), truncation at a drawn offset, length-field edits, garbage prefixes, pure garbage, single-byte edits, repeated tails, extreme text numbers, and (one run in forty) a flood of 4000-12000 identical rejected text lines on one connection, after which the goroutine stacks must not have grown by more than 256 KiB. Oracle: quiescence is reached (a spin is caught by the watchdog), a frame with total body < key + extras is answered or the connection closed without waiting for more input, bytes allocated while decoding (runtime.MemStats.TotalAlloc delta) stay below 1 MiB + 4x the sizes the frame consistently declares, after EOF rend closes the connection and no goroutine executing repository code is left over, no pooled protocol object was handed back twice (poisoning pools), anything rend did send is well-formed, and another and a new connection are still served. Coverage-guided fuzzing (named in the property's quantifier) is a different technique and is not done. Every case injects malformed input; distinct = distinct plan hash",
		Real:       realFullStack,
		Stub:       stubFullStack,
		FaultKinds: []string{"malformed_input"},
		RunsQuick:  4000, RunsThorough: 80000,
	})
}
