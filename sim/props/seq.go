package props

import (
	"bytes"
	"encoding/binary"
	"fmt"
	"sort"
	"strings"
	"testing"
	"time"

	"rendsim/kernel"
	"rendsim/model"
	"rendsim/stack"
	"rendsim/wire"
)

// seqOpts selects the oracles of a sequential full-stack run.
type seqOpts struct {
	Replies    bool // C01: every reply equals the reference map's
	Tiers      bool // C01: tier contents consistent with the reference map
	Subset     bool // C02: L1 ⊆ L2 whenever no command is in flight
	Discipline bool // C08: reply discipline
	Deadlines  bool // C09: deadlines recorded by the backends equal the model's
	Record     *[]string
	Wrap       *stack.Wrappers
	// OnOp is called after each command with what was observed.
	OnOp func(i int, st Step, o Obs, closed bool)
}

// seqEnv is the live state of a sequential run.
type seqEnv struct {
	plan  Plan
	w     *kernel.World
	d     *stack.Deployment
	conns []*kernel.ClientConn
	ref   *model.Store
	res   *Result
	opts  seqOpts
	dead  map[int]bool
}

func (e *seqEnv) violate(step int, rule, class, format string, a ...interface{}) {
	if e.res.V == nil {
		e.res.V = &Violation{Prop: e.plan.Prop, Rule: rule, Msg: fmt.Sprintf(format, a...), Step: step, Class: rule + ":" + class}
	}
}

func encode(proto string, op wire.Op) []byte {
	if proto == "text" {
		return wire.EncodeText(op)
	}
	return wire.EncodeBinary(op)
}

// execSeq runs a sequential plan: commands are issued one at a time, the next
// only after the previous one's reply is complete (world settled).
func execSeq(t *testing.T, plan Plan, src kernel.Source, opts seqOpts) Result {
	return inBubble(t, plan.Seed, src, func(w *kernel.World, res *Result) {
		w.SegMode = plan.Seg
		w.LogEvents = plan.X["log"] != 0
		if plan.Cfg.L1 == "batched" || plan.Cfg.L2 == "batched" {
			w.TimerStep = 300 * time.Microsecond
			w.TimerBudget = 40
			w.Run.ParkSubmit = false
		}
		e := &seqEnv{plan: plan, w: w, res: res, opts: opts, dead: map[int]bool{}}
		e.d = stack.Build(w, plan.Cfg, opts.Wrap)
		e.ref = model.NewStore(w.Now)
		for _, cs := range plan.Conns {
			e.conns = append(e.conns, w.Connect(cs.Port))
			if !w.Settle() {
				res.Infra = "step budget exhausted while connecting"
				return
			}
		}
		w.Run.Poison = opts.Discipline
		for i, st := range plan.Steps {
			if res.V != nil || res.Infra != "" {
				return
			}
			e.step(i, st)
			// reply discipline includes the pooled headers the opaque is read from: one that
			// is handed back twice will be given to two connections at once
			if opts.Discipline && res.V == nil {
				if faults := w.Run.TakeFaults(); len(faults) > 0 {
					e.violate(i, "pool_misuse", "headers", "after %s rend had misused a shared pool of protocol objects: %s", st, strings.Join(faults, "; "))
				}
			}
			// standing monitor of the simulated backends: with well-formed client input and no
			// fault, everything rend sends to a backend is a well-formed request
			if res.V == nil {
				for _, tr := range []*kernel.Tier{e.d.L1, e.d.L2} {
					if tr != nil && len(tr.Fake.Malformed) > 0 {
						e.violate(i, "backend_malformed", tr.Name, "after %s the %s backend had received a malformed request from rend: %s", st, tr.Name, tr.Fake.Malformed[0])
					}
				}
			}
		}
	})
}

func (e *seqEnv) step(i int, st Step) {
	w := e.w
	switch {
	case st.Advance != 0:
		w.Advance(time.Duration(st.Advance) * time.Second)
		w.Settle()
	case st.Evict != nil:
		keys := st.Evict
		if len(keys) == 1 && keys[0] == "*" {
			// everything: the backend's own entries (for a chunked L1 these are metadata and
			// chunk entries, not client keys)
			st1 := e.d.L1.Fake.Store
			for _, bk := range st1.LiveKeys() {
				st1.Evict(bk)
			}
			keys = nil
		}
		for _, k := range keys {
			e.evictL1(k)
		}
		e.res.probe("evictions")
	case len(st.Pipe) > 0:
		e.pipeStep(i, st)
	case st.Op != nil:
		if e.dead[st.Conn] {
			return
		}
		cc := e.conns[st.Conn]
		proto := e.plan.Conns[st.Conn].Proto
		op := *st.Op
		alignClock(w)
		exp := applyModel(e.ref, op)
		w.KeepWaiting = func() bool { return !replyLooksComplete(proto, op, exp, cc.Unread()) }
		if !w.Send(cc, encode(proto, op)) {
			e.violate(i, "no_quiescence", op.Kind, "the system did not become quiescent within %d kernel steps after %s", w.MaxSteps, op)
			return
		}
		reply := append([]byte(nil), cc.Unread()...)
		cc.Consume(len(reply))
		closed := cc.C.ClosedByRend()
		o := decodeReply(proto, op, reply, closed)
		if e.opts.Record != nil {
			*e.opts.Record = append(*e.opts.Record, canonObs(o))
		}
		if e.opts.OnOp != nil {
			e.opts.OnOp(i, st, o, closed)
		}
		class := op.Kind + "/" + e.plan.Conns[st.Conn].Port + "/" + proto
		if closed && op.Kind != "quit" {
			e.dead[st.Conn] = true
			if e.opts.Replies || e.opts.Discipline {
				e.violate(i, "closed", class, "rend closed the client connection during %s (reply so far %q)", op, trunc(reply))
			}
			return
		}
		if e.opts.Replies {
			if o.Garbage != "" {
				e.violate(i, "garbage", class, "undecodable reply to %s: %s (%q)", op, o.Garbage, trunc(reply))
				return
			}
			if o.Incomplete {
				e.violate(i, "incomplete", class, "reply to %s ends in the middle of a frame although the system is quiescent: %q", op, trunc(reply))
				return
			}
			if m := compareOutcome(proto, op, o, exp); m != "" {
				e.violate(i, "reply", class, "%s -> %s", op, m)
				return
			}
		}
		if e.opts.Discipline {
			e.checkDiscipline(i, proto, op, o, reply, class)
		}
		if e.opts.Tiers {
			e.checkTiers(i, op)
		}
		if e.opts.Deadlines {
			e.checkDeadlines(i, op)
		}
		if op.Kind == "quit" {
			e.dead[st.Conn] = true
		}
	}
	if e.opts.Subset && e.res.V == nil {
		e.checkSubset(i, st)
	}
	e.res.States = append(e.res.States, e.stateHash(st))
}

// alignClock keeps sub-second drift (pool timers) away from second boundaries so
// that the two tiers and the model see the same second while one command runs.
func alignClock(w *kernel.World) {
	ns := time.Now().Nanosecond()
	if ns > 400_000_000 {
		w.Advance(time.Duration(1_000_000_000 - ns))
	}
}

func trunc(b []byte) []byte {
	if len(b) > 120 {
		return append(append([]byte(nil), b[:120]...), "..."...)
	}
	return b
}

func canonObs(o Obs) string {
	var vs []string
	for _, v := range o.Values {
		vs = append(vs, fmt.Sprintf("%s|%d|%x", v.Key, v.Flags, v.Data))
	}
	sort.Strings(vs)
	return fmt.Sprintf("%s %v t=%d m=%v", o.Status, vs, o.Term, o.Misses)
}

// evictL1 removes every backend entry that belongs to client key k from L1
// (for a chunked L1: the metadata entry and all chunks).
func (e *seqEnv) evictL1(k string) {
	st := e.d.L1.Fake.Store
	if e.plan.Cfg.L1 == "chunked" {
		for _, bk := range st.LiveKeys() {
			if bk == k+"-meta" || isChunkKeyOf(bk, k) {
				st.Evict(bk)
			}
		}
		return
	}
	st.Evict(k)
}

func isChunkKeyOf(bk, k string) bool {
	if !strings.HasPrefix(bk, k+"-") {
		return false
	}
	rest := bk[len(k)+1:]
	if rest == "" {
		return false
	}
	for _, c := range rest {
		if c < '0' || c > '9' {
			return false
		}
	}
	return true
}

// tierView returns the client-level content of a tier: key -> (value, flags, deadline).
// For a chunked tier it reassembles values from metadata + chunks and reports
// ok=false for keys whose entries are inconsistent.
type tierEntry struct {
	Value    []byte
	Flags    uint32
	Deadline int64
	Broken   string
	MetaExp  int64 // chunked: the expiry stored inside the metadata record (−1 for other tiers)
	ChunkDl  []int64
}

func tierView(t *kernel.Tier, kind string) map[string]tierEntry {
	out := map[string]tierEntry{}
	st := t.Fake.Store
	if kind != "chunked" {
		for _, k := range st.LiveKeys() {
			en := st.Peek(k)
			out[k] = tierEntry{Value: en.Value, Flags: en.Flags, Deadline: en.Deadline, MetaExp: -1}
		}
		return out
	}
	for _, bk := range st.LiveKeys() {
		if !strings.HasSuffix(bk, "-meta") {
			continue
		}
		k := strings.TrimSuffix(bk, "-meta")
		m := st.Peek(bk)
		te := tierEntry{Deadline: m.Deadline}
		if len(m.Value) != 40 {
			te.Broken = fmt.Sprintf("metadata entry of %d bytes", len(m.Value))
			out[k] = te
			continue
		}
		length := int(binary.BigEndian.Uint32(m.Value[0:4]))
		te.Flags = binary.BigEndian.Uint32(m.Value[4:8])
		nchunks := int(binary.BigEndian.Uint32(m.Value[8:12]))
		csize := int(binary.BigEndian.Uint32(m.Value[12:16]))
		te.MetaExp = int64(binary.BigEndian.Uint32(m.Value[20:24]))
		token := m.Value[24:40]
		var val []byte
		for i := 0; i < nchunks; i++ {
			c := st.Peek(fmt.Sprintf("%s-%d", k, i))
			if c == nil {
				te.Broken = fmt.Sprintf("chunk %d of %d missing", i, nchunks)
				break
			}
			if len(c.Value) < 16 || !bytes.Equal(c.Value[:16], token) {
				te.Broken = fmt.Sprintf("chunk %d carries another write's token", i)
				break
			}
			te.ChunkDl = append(te.ChunkDl, c.Deadline)
			d := c.Value[16:]
			if len(d) > csize {
				d = d[:csize]
			}
			val = append(val, d...)
		}
		if te.Broken == "" {
			if len(val) < length {
				te.Broken = fmt.Sprintf("chunks hold %d bytes, metadata says %d", len(val), length)
			} else {
				te.Value = val[:length]
			}
		}
		out[k] = te
	}
	return out
}

func (e *seqEnv) checkTiers(i int, op wire.Op) {
	ref := map[string]tierEntry{}
	for _, k := range e.ref.LiveKeys() {
		en := e.ref.Peek(k)
		ref[k] = tierEntry{Value: en.Value, Flags: en.Flags, Deadline: en.Deadline}
	}
	l1 := tierView(e.d.L1, e.plan.Cfg.L1)
	cmp := func(name string, tv map[string]tierEntry, full bool) {
		for k, te := range tv {
			r, ok := ref[k]
			if !ok {
				e.violate(i, "tier_extra", name+"/"+op.Kind, "after %s: %s holds key %q which the reference map does not contain", op, name, k)
				return
			}
			if te.Broken != "" {
				continue
			}
			if !bytes.Equal(te.Value, r.Value) || te.Flags != r.Flags {
				e.violate(i, "tier_value", name+"/"+op.Kind, "after %s: %s holds %q = %s flags %d, the reference map holds %s flags %d", op, name, k, short(te.Value), te.Flags, short(r.Value), r.Flags)
				return
			}
		}
		if full {
			for k := range ref {
				if _, ok := tv[k]; !ok {
					e.violate(i, "tier_missing", name+"/"+op.Kind, "after %s: %s lacks key %q which the reference map contains", op, name, k)
					return
				}
			}
		}
	}
	if e.plan.Cfg.HasL2() {
		cmp("l2", tierView(e.d.L2, e.plan.Cfg.L2), true)
		cmp("l1", l1, false)
	} else {
		cmp("l1", l1, true)
	}
}

func (e *seqEnv) checkSubset(i int, st Step) {
	if !e.plan.Cfg.HasL2() {
		return
	}
	l1 := tierView(e.d.L1, e.plan.Cfg.L1)
	l2 := tierView(e.d.L2, e.plan.Cfg.L2)
	keys := make([]string, 0, len(l1))
	for k := range l1 {
		keys = append(keys, k)
	}
	sort.Strings(keys)
	for _, k := range keys {
		a := l1[k]
		if a.Broken != "" {
			continue
		}
		b, ok := l2[k]
		kind := "-"
		if st.Op != nil {
			kind = st.Op.Kind + "/" + e.plan.Conns[st.Conn].Port
		}
		if !ok {
			e.violate(i, "l1_not_in_l2", kind, "after %s: L1 holds %q (%s) but L2 does not", st, k, short(a.Value))
			return
		}
		if !bytes.Equal(a.Value, b.Value) || a.Flags != b.Flags {
			e.violate(i, "l1_differs_l2", kind, "after %s: L1 holds %q = %s flags %d, L2 holds %s flags %d", st, k, short(a.Value), a.Flags, short(b.Value), b.Flags)
			return
		}
	}
}

func (e *seqEnv) stateHash(st Step) uint64 {
	var sb strings.Builder
	for _, k := range e.ref.LiveKeys() {
		en := e.ref.Peek(k)
		fmt.Fprintf(&sb, "%s=%d/%d/%v;", k, len(en.Value), en.Flags, en.Deadline != 0)
	}
	sb.WriteString("|")
	for _, k := range e.d.L1.Fake.Store.LiveKeys() {
		sb.WriteString(k + ";")
	}
	if st.Op != nil {
		sb.WriteString("|" + st.Op.Kind)
	}
	return hash64(e.plan.Cfg.String(), sb.String())
}

// replyLooksComplete stops the idle clock advances (runs in which pool timers drive
// progress) as soon as the client holds everything the reference map says the
// command produces. The last reply element is the last thing rend does for a
// command, so stopping then cannot cut a command short; if rend produces less than
// the map expects the full idle budget is spent and the oracle reports it.
func replyLooksComplete(proto string, op wire.Op, exp Expect, buf []byte) bool {
	if len(buf) == 0 {
		return false
	}
	o := decodeReply(proto, op, buf, false)
	if o.Incomplete || o.Garbage != "" {
		return false
	}
	if op.Kind == "get" {
		if o.Status != "ok" {
			return true
		}
		if len(o.Values) < len(exp.Hits) {
			return false
		}
		if proto == "text" || op.Noop {
			return o.Term >= 1
		}
		hit := map[int]bool{}
		for _, v := range exp.Hits {
			hit[v.Idx] = true
		}
		need := 0
		for i := range op.Keys {
			if !hit[i] && !(i < len(op.Quiets) && op.Quiets[i]) {
				need++
			}
		}
		return len(o.Misses) >= need
	}
	return o.Status != "none"
}
