package props

import (
	"bytes"
	"fmt"
	"runtime"
	"strings"
	"testing"

	"rendsim/kernel"
	"rendsim/simnet"
	"rendsim/stack"
	"rendsim/wire"
)

// C15 — a client disconnect at any byte releases everything held for that connection.
// Fault: the client closes its connection after exactly X["cut"] bytes of its
// request stream. Enumeration: every prefix length of representative streams.

func execC15(t *testing.T, p Plan, src kernel.Source) Result {
	return inBubble(t, p.Seed, src, func(w *kernel.World, res *Result) {
		w.LogEvents = p.X["log"] != 0
		w.Run.ManagePkgs = []string{"/orcas"}
		// what is held for a connection includes pooled protocol objects: they go back to
		// their pool exactly once (the simulated pools report a second Put)
		w.Run.Poison = true
		d := stack.Build(w, p.Cfg, nil)
		w.Settle()
		viol := func(rule, class, format string, a ...interface{}) {
			if res.V == nil {
				res.V = &Violation{Prop: "C15", Rule: rule, Step: 0, Class: rule + ":" + class, Msg: fmt.Sprintf(format, a...)}
			}
		}
		// warm-up client so that lazily created things (pools) exist before the baseline
		warm := w.Connect("main")
		w.Settle()
		w.Send(warm, wire.EncodeText(wire.Op{Kind: "get", Keys: []string{"warm"}}))
		if p.X["warm"] != 0 && d.L2 != nil {
			// the keys the victim reads are hot in L1 and present in L2 (stored through the
			// main port; the batch port itself never fills L1)
			w.Send(warm, wire.EncodeText(wire.Op{Kind: "set", Key: "a", Data: bytes.Repeat([]byte("s"), 40), Flags: 1}))
			w.Send(warm, wire.EncodeText(wire.Op{Kind: "set", Key: "bb", Data: bytes.Repeat([]byte("L"), 5000), Flags: 2}))
		}
		if p.X["l2only"] != 0 && d.L2 != nil {
			// the keys the victim reads are in L2 only: its gets go through both tiers and
			// back-fill L1 (the values: one short, one larger than rend's write buffer)
			w.Send(warm, wire.EncodeText(wire.Op{Kind: "set", Key: "a", Data: bytes.Repeat([]byte("s"), 40), Flags: 1}))
			w.Send(warm, wire.EncodeText(wire.Op{Kind: "set", Key: "bb", Data: bytes.Repeat([]byte("L"), 5000), Flags: 2}))
			st1 := d.L1.Fake.Store
			for _, bk := range st1.LiveKeys() {
				for _, k := range []string{"a", "bb"} {
					if bk == k || bk == k+"-meta" || isChunkKeyOf(bk, k) {
						st1.Evict(bk)
					}
				}
			}
		}
		warm.C.PeerClose(simnet.PeerClosed)
		w.Settle()
		base := rendGoroutines()
		nb1 := len(d.L1.Conns)
		nb2 := 0
		if d.L2 != nil {
			nb2 = len(d.L2.Conns)
		}
		lockBase := len(w.Run.LockLog)

		spec := p.Conns[0]
		victim := w.Connect(spec.Port)
		w.Settle()
		nv1 := len(d.L1.Conns)
		nv2 := 0
		if d.L2 != nil {
			nv2 = len(d.L2.Conns)
		}
		// bystander variant: while the victim is connected and has not sent anything yet,
		// another client connects to the same port and is served. What is held for the
		// victim is the victim's own, and what is held for the bystander stays
		var by *kernel.ClientConn
		byCheck := func(when string, key string) bool {
			val := []byte("bystander-" + key)
			w.Send(by, wire.EncodeText(wire.Op{Kind: "set", Key: key, Data: val, Flags: 9}))
			w.Send(by, wire.EncodeText(wire.Op{Kind: "get", Keys: []string{key}}))
			want := fmt.Sprintf("STORED\r\nVALUE %s 9 %d\r\n%s\r\nEND\r\n", key, len(val), val)
			got := string(by.Unread())
			by.Consume(len(got))
			if got != want {
				viol("bystander", p.Cfg.L1+"/"+spec.Proto, "a second client connected %s got %q for set %s / get %s", when, trunc([]byte(got)), key, key)
				return false
			}
			return true
		}
		if p.X["bystander"] != 0 {
			by = w.Connect(spec.Port)
			w.Settle()
			if !byCheck("while the first client was idle", "by1") {
				return
			}
		}
		var data []byte
		for _, op := range p.Steps[0].Pipe {
			data = append(data, encode(spec.Proto, op)...)
		}
		if len(p.Faults) > 0 {
			// a second fault in the same request: the backend refuses one of the victim's
			// backend requests while the client is going away
			w.ArmFor(p.Faults, victim.Name)
		}
		cut := int(p.X["cut"])
		if cut > len(data) {
			cut = len(data)
		}
		class := fmt.Sprintf("%s/%s", p.Cfg.L1, spec.Proto)
		closeMode := simnet.PeerClosed
		if p.X["silent"] != 0 {
			closeMode = simnet.PeerClosedSilent
		}
		if cut > 0 {
			if p.X["close_first"] != 0 {
				// the client writes and closes at once: rend finds the bytes and the EOF
				// together, and whatever it tries to answer meets a dead socket
				w.Deliver(victim, data[:cut])
			} else if !w.Send(victim, data[:cut]) {
				viol("no_quiescence", class, "no quiescence after %d bytes", cut)
				return
			}
		}
		victim.C.PeerClose(closeMode)
		w.Stat.FaultsFired["client_close"]++
		if !w.Settle() {
			viol("no_quiescence", class, "no quiescence after the client closed at byte %d", cut)
			return
		}
		w.Disarm()
		where := fmt.Sprintf("client closed after %d of %d bytes of %s", cut, len(data), describePipe(p.Steps[0].Pipe))
		if len(p.Faults) > 0 {
			where += fmt.Sprintf(" while the backend refused %v", p.Faults)
		}
		if p.X["close_first"] != 0 {
			where += fmt.Sprintf(" (sent and closed at once, write mode silent=%v)", p.X["silent"] != 0)
		}
		// 1. rend closed its side of the client connection
		if !victim.C.ClosedByRend() {
			viol("client_conn_open", class, "%s: rend did not close the client connection", where)
			return
		}
		// 2. backend connections dialled for this client are closed
		for _, b := range d.L1.Conns[nb1:nv1] {
			if !b.C.ClosedByRend() {
				viol("backend_conn_open", class+"/l1", "%s: the L1 backend connection %s opened for the client is still open", where, b.C.Name)
				return
			}
		}
		if d.L2 != nil {
			for _, b := range d.L2.Conns[nb2:nv2] {
				if !b.C.ClosedByRend() {
					viol("backend_conn_open", class+"/l2", "%s: the L2 backend connection %s opened for the client is still open", where, b.C.Name)
					return
				}
			}
		}
		if by != nil {
			// the bystander lost nothing: its backend connections are open, it is still served,
			// and when it leaves in turn everything of its own is released as well
			for _, b := range d.L1.Conns[nv1:] {
				if b.C.ClosedByRend() {
					viol("bystander", class+"/l1", "%s: the L1 backend connection %s of another, still connected client was closed", where, b.C.Name)
					return
				}
			}
			if d.L2 != nil {
				for _, b := range d.L2.Conns[nv2:] {
					if b.C.ClosedByRend() {
						viol("bystander", class+"/l2", "%s: the L2 backend connection %s of another, still connected client was closed", where, b.C.Name)
						return
					}
				}
			}
			if by.C.ClosedByRend() {
				viol("bystander", class, "%s: the connection of another client was closed", where)
				return
			}
			if !byCheck("after the first client left ("+where+")", "by2") {
				return
			}
			by.C.PeerClose(simnet.PeerClosed)
			if !w.Settle() {
				viol("no_quiescence", class, "no quiescence after the second client closed")
				return
			}
			for _, b := range d.L1.Conns[nv1:] {
				if !b.C.ClosedByRend() {
					viol("backend_conn_open", class+"/l1", "%s; then the second client left: its L1 backend connection %s is still open", where, b.C.Name)
					return
				}
			}
			if d.L2 != nil {
				for _, b := range d.L2.Conns[nv2:] {
					if !b.C.ClosedByRend() {
						viol("backend_conn_open", class+"/l2", "%s; then the second client left: its L2 backend connection %s is still open", where, b.C.Name)
						return
					}
				}
			}
		}
		// 3. goroutines serving the connection ended
		if n := rendGoroutines(); n != base {
			viol("goroutines", class, "%s: %d goroutines before the connection, %d after it was closed", where, base, n)
			return
		}
		// 4. no key lock held
		held := map[string]int{}
		for _, e := range w.Run.LockLog[lockBase:] {
			switch e.Op {
			case "lock", "rlock":
				held[e.Lock]++
			default:
				held[e.Lock]--
			}
		}
		for l, n := range held {
			if n != 0 {
				viol("lock_held", class, "%s: key lock %s acquired %d more times than released", where, l, n)
				return
			}
		}
		if faults := w.Run.TakeFaults(); len(faults) > 0 {
			viol("pool_misuse", class, "%s: rend handed a pooled object back twice (%s); it can now be given to two connections at once", where, strings.Join(faults, "; "))
			return
		}
		// 5. the server keeps serving: a fresh client works on the same keys
		fresh := w.Connect("main")
		w.Settle()
		val := []byte("fresh-value")
		w.Send(fresh, wire.EncodeText(wire.Op{Kind: "set", Key: "a", Data: val, Flags: 5}))
		w.Send(fresh, wire.EncodeText(wire.Op{Kind: "get", Keys: []string{"a"}}))
		want := "STORED\r\nVALUE a 5 11\r\nfresh-value\r\nEND\r\n"
		if got := string(fresh.Unread()); got != want {
			viol("fresh_client", class, "%s: a fresh client then got %q for set a / get a", where, trunc([]byte(got)))
			return
		}
	})
}

// rendGoroutines counts the live goroutines that are executing repository code
// (runtime.NumGoroutine is racy by one while a goroutine is in the middle of exiting).
func rendGoroutines() int {
	buf := make([]byte, 1<<20)
	for {
		n := runtime.Stack(buf, true)
		if n < len(buf) {
			buf = buf[:n]
			break
		}
		buf = make([]byte, 2*len(buf))
	}
	count := 0
	for _, g := range bytes.Split(buf, []byte("\n\n")) {
		if bytes.Contains(g, []byte("github.com/netflix/rend/")) {
			count++
		}
	}
	return count
}

func describePipe(ops []wire.Op) string {
	var b bytes.Buffer
	for i, o := range ops {
		if i > 0 {
			b.WriteString(",")
		}
		b.WriteString(o.Kind)
	}
	return "[" + b.String() + "]"
}

func c15Streams() map[string][][]wire.Op {
	v := bytes.Repeat([]byte("x"), 40)
	big := bytes.Repeat([]byte("y"), 1500)
	common := [][]wire.Op{
		{{Kind: "set", Key: "a", Data: v, Flags: 1, TTL: 0, Opaque: 1}},
		{{Kind: "add", Key: "bb", Data: v, Opaque: 2}},
		{{Kind: "set", Key: "a", Data: big, Opaque: 3}},
		{{Kind: "append", Key: "a", Data: v, Opaque: 4}},
		{{Kind: "delete", Key: "a", Opaque: 5}},
		{{Kind: "touch", Key: "a", TTL: 10, Opaque: 6}},
		{{Kind: "get", Keys: []string{"a"}, Quiets: []bool{false}, Opaque: 7}},
		{{Kind: "set", Key: "a", Data: v, Opaque: 10}, {Kind: "get", Keys: []string{"a", "bb"}, Quiets: []bool{true, false}, Opaque: 20}, {Kind: "delete", Key: "a", Opaque: 30}},
		{{Kind: "set", Key: "a", Data: v, Opaque: 40}, {Kind: "quit", Opaque: 41}},
		{{Kind: "noop", Opaque: 50}, {Kind: "version", Opaque: 51}},
		{{Kind: "quit", Opaque: 52}},
		{{Kind: "get", Keys: []string{"nokey"}, Quiets: []bool{false}, Opaque: 53}, {Kind: "quit", Opaque: 54}},
		{{Kind: "get", Keys: []string{"a", "bb"}, Quiets: []bool{true, false}, Opaque: 55}},
		{{Kind: "get", Keys: []string{"bb", "a", "nokey"}, Quiets: []bool{true, true, false}, Opaque: 58}},
		{{Kind: "get", Keys: []string{"a", "a", "bb", "nokey"}, Quiets: []bool{true, true, true, false}, Opaque: 62}},
	}
	bin := append([][]wire.Op{}, common...)
	bin = append(bin,
		[]wire.Op{{Kind: "set", Key: "a", Data: v, Opaque: 60}, {Kind: "gat", Key: "a", TTL: 5, Opaque: 61}},
		[]wire.Op{{Kind: "set", Key: "a", Data: v, Opaque: 70}, {Kind: "get", Keys: []string{"a", "bb", "a"}, Quiets: []bool{true, true, true}, Noop: true, Opaque: 80}},
		[]wire.Op{{Kind: "set", Key: "a", Data: v, Opaque: 90, Quiet: true}, {Kind: "replace", Key: "a", Data: v, Opaque: 91, Quiet: true}},
		[]wire.Op{{Kind: "set", Key: "a", Data: v, Opaque: 92, Quiet: true}, {Kind: "quit", Opaque: 93}},
		[]wire.Op{{Kind: "quit", Opaque: 94, Quiet: true}},
	)
	return map[string][][]wire.Op{"text": common, "bin": bin}
}

// c15Reads: the stream consists of reads only (they do not create the keys themselves).
func c15Reads(ops []wire.Op) bool {
	for _, o := range ops {
		if o.Kind != "get" && o.Kind != "gat" && o.Kind != "quit" && o.Kind != "noop" {
			return false
		}
	}
	return ops[0].Kind == "get" || ops[0].Kind == "gat"
}

func c15Cfgs() []stack.Cfg {
	var out []stack.Cfg
	for _, shape := range []string{"l1only", "l1l2", "l1l2batch"} {
		for _, l1 := range []string{"std", "chunked"} {
			for _, locked := range []bool{false, true} {
				c := stack.Cfg{Shape: shape, L1: l1, L2: "std", GetEAbsolute: true, Locked: locked, MultiReader: locked && l1 == "std", Concurrency: 1}
				if shape == "l1only" {
					c.L2 = ""
				}
				out = append(out, c)
			}
		}
	}
	return out
}

func enumC15(tier string) []Plan {
	var out []Plan
	streams := c15Streams()
	cfgs := c15Cfgs()
	n := 0
	for ci, cfg := range cfgs {
		for _, proto := range []string{"text", "bin"} {
			for si, ops := range streams[proto] {
				var data []byte
				for _, op := range ops {
					data = append(data, encode(proto, op)...)
				}
				ports := []string{"main"}
				if cfg.Shape == "l1l2batch" {
					ports = []string{"main", "batch"}
				}
				for _, port := range ports {
					for cut := 0; cut <= len(data); cut++ {
						n++
						if tier != "thorough" {
							// quick: every cut for a rotating quarter of (cfg, stream) pairs,
							// and cuts at a stride of 7 (plus the ends) for the rest
							full := (ci+si)%4 == 0
							if !full && cut%7 != 0 && cut != len(data) && cut != len(data)-1 && cut > 30 {
								continue
							}
							if len(data) > 400 && cut > 60 && cut < len(data)-4 && cut%97 != 0 {
								continue
							}
						} else if len(data) > 400 && cut > 80 && cut < len(data)-8 && cut%11 != 0 {
							continue
						}
						p := Plan{Prop: "C15", Seed: uint64(0xC15000 + n), Cfg: cfg, Conns: []ConnSpec{{Port: port, Proto: proto}},
							Steps: []Step{{Pipe: ops}}, X: map[string]int64{"cut": int64(cut)}}
						out = append(out, p)
						if cut == 0 {
							// the connection is reset (not closed in an orderly way) before the
							// client has sent anything: the first read fails with ECONNRESET, not EOF
							q := p.Clone()
							q.Seed += 1 << 42
							q.X["silent"] = 1
							out = append(out, q)
						}
						// the same cut with the client closing in the same instant as it sends
						// (replies then meet a dead socket): EPIPE mode for every such cut, silent
						// mode where the prefix ends with a complete request
						if cut > 0 && (tier == "thorough" || cut%3 == 0 || cut == len(data)) {
							q := p.Clone()
							q.Seed += 1 << 32
							q.X["close_first"] = 1
							out = append(out, q)
							if cut == len(data) || cut%11 == 0 {
								r := q.Clone()
								r.Seed += 1 << 33
								r.X["silent"] = 1
								out = append(out, r)
							}
						}
						// ... and, for streams that read, with the keys in L2 only (the reads go
						// through both tiers): every cut in the thorough tier, a third otherwise
						if c15Reads(ops) && cfg.Shape != "l1only" && (tier == "thorough" || cut%3 == 0 || cut >= len(data)-2) {
							q := p.Clone()
							q.Seed += 1 << 35
							q.X["l2only"] = 1
							out = append(out, q)
							if cut > 0 {
								r := q.Clone()
								r.Seed += 1 << 36
								r.X["close_first"] = 1
								r.X["silent"] = int64(cut % 2)
								out = append(out, r)
							}
						}
						// ... and a multi-key read that is sent completely, with the keys hot in L1
						// or in L2 only, while L1 refuses one of its backend requests (the client
						// leaves and the backend fails within one request)
						if c15Reads(ops) && len(ops[0].Keys) >= 2 && cfg.Shape != "l1only" && cut == len(data) {
							for idx := 0; idx < 4; idx++ {
								for _, place := range []string{"warm", "l2only"} {
									q := p.Clone()
									q.Seed += uint64(1)<<39 + uint64(idx)<<41
									if place == "l2only" {
										q.Seed += 1 << 40
									}
									q.X[place] = 1
									q.X["close_first"] = 1
									q.X["silent"] = int64(idx % 2)
									q.Faults = []kernel.Fault{{Kind: "status", Tier: "l1", Index: idx, Status: 0x82}}
									out = append(out, q)
								}
							}
						}
						// ... and, on the batch port, with the keys hot in L1 (stored via the main port)
						if c15Reads(ops) && port == "batch" && (tier == "thorough" || cut%3 == 0 || cut >= len(data)-2) {
							q := p.Clone()
							q.Seed += 1 << 37
							q.X["warm"] = 1
							out = append(out, q)
							if cut > 0 {
								r := q.Clone()
								r.Seed += 1 << 38
								r.X["close_first"] = 1
								r.X["silent"] = int64(cut % 2)
								out = append(out, r)
							}
						}
						// ... and with a second client connected to the same port meanwhile
						if cut == 0 || cut == len(data) || (tier == "thorough" && cut%5 == 0) || cut%23 == 0 {
							q := p.Clone()
							q.Seed += 1 << 34
							q.X["bystander"] = 1
							out = append(out, q)
						}
					}
				}
			}
		}
	}
	return out
}

func genC15(seed uint64, tier string) Plan {
	// seeded part: random pipelines with a random cut
	g := newGen(seed)
	cfg := pick(g, c15Cfgs())
	proto := pick(g, []string{"text", "bin"})
	port := "main"
	if cfg.Shape == "l1l2batch" && g.p(1, 2) {
		port = "batch"
	}
	var opq uint32 = 100
	var ops []wire.Op
	for i := 0; i < 1+g.n(5); i++ {
		ops = append(ops, g.dataOp(proto, keyAlphabet[:2], 946684800, false, &opq))
	}
	var n int
	for _, op := range ops {
		n += len(encode(proto, op))
	}
	return Plan{Prop: "C15", Seed: seed, Cfg: cfg, Conns: []ConnSpec{{Port: port, Proto: proto}}, Steps: []Step{{Pipe: ops}},
		X: map[string]int64{"cut": int64(g.n(n + 1)), "close_first": int64(g.n(2)), "silent": int64(g.n(2)), "bystander": int64(g.n(2)), "l2only": int64(g.n(2)), "warm": int64(g.n(2))}}
}

func init() {
	register(&Prop{
		ID: "C15", Gen: genC15, Exec: execC15, Enumerate: enumC15, Level: "fault_enumeration",
		Rule:       "fault = the client closes its connection after exactly n bytes of its request stream. Enumerated part: representative streams (each command, a large set, pipelines, quiet batches, quiet sets, quit alone / after a miss / after a quiet set, quiet quit; 12 text + 17 binary) x 12 deployments (L1-only / L1L2 / batch port, direct or chunked per-connection handlers, with and without the locking wrapper) x every prefix length n = 0..len (n = 0 also as a connection reset: the first read fails with ECONNRESET instead of EOF) (quick: every n for a rotating quarter of the pairs, stride 7 plus both ends for the rest; thorough: every n), each cut also in the variant where the client sends and closes in the same instant so that rend's replies meet a dead socket (EPIPE, and at request ends also the silent write mode). Selected cuts (both ends, every 23rd / thorough every 5th byte) also with a second client that connected to the same port while the first was idle: it must keep its backend connections, still be served after the first client left, and release its own when it leaves in turn. Read-only streams (single and multi-key gets, gat) also with the keys stored in L2 only (a 40-byte and a 5000-byte value, evicted from L1), so that the reads go through both tiers when the client leaves, and on the batch port with the keys hot in L1 (stored through the main port). Multi-key reads that are sent completely also run with a second fault in the same request: L1 refuses the victim's backend request #0..3 (out of memory) while the client leaves, keys hot in L1 or in L2 only. Seeded part: random pipelines with a random cut, half of them with the second client, half with the keys a, bb in L2 only. After quiescence: rend closed the client socket, every backend connection dialled for that client is closed, the goroutine count is back to the pre-connection baseline, every key lock acquired was released, no pooled protocol object was handed back twice (poisoning pools), and a fresh client is served on the same keys. Every case is non-trivial (a fault is injected in each); distinct = distinct plan hash",
		Real:       append(append([]string{}, realFullStack...), "handlers/memcached/chunked", "server/utils.go abort"),
		Stub:       stubFullStack,
		FaultKinds: []string{"client_close", "status"},
		RunsQuick:  1500, RunsThorough: 40000,
	})
}
