package props

import (
	"fmt"
	"strings"
	"testing"
	"time"

	"rendsim/kernel"
	"rendsim/model"
	"rendsim/stack"
	"rendsim/wire"
)

// C14 — concurrent connections do not interfere with each other.
//
// 2..64 connections run closed-loop programs on private key sets; the kernel
// interleaves at message / lock granularity. Object pools poison what is returned
// to them (ssync.Pool in poison mode), which turns "touched after Put" into a
// deterministic wrong length or status. Oracle: every connection observes exactly
// the replies the reference map gives for its own sequence alone.

func execC14(t *testing.T, p Plan, src kernel.Source) Result {
	return inBubble(t, p.Seed, src, func(w *kernel.World, res *Result) {
		w.LogEvents = p.X["log"] != 0
		w.Interleave = false
		w.ProcAll = false
		w.Run.Poison = p.X["nopoison"] == 0
		if p.Cfg.Locked {
			w.Run.ManagePkgs = []string{"/orcas"}
		}
		pooled := p.Cfg.L1 == "batched" || p.Cfg.L2 == "batched"
		if pooled {
			// several connections submit to the shared pool in the same kernel step: the
			// pool's connection choice parks so that the kernel orders the submissions
			w.Run.ParkSubmit = true
			w.TimerStep = time.Duration(max(int64(p.Cfg.BatchDelayMicros), int64(50))) * time.Microsecond
			w.TimerBudget = 4000
		}
		d := stack.Build(w, p.Cfg, nil)
		e := &concEnv{plan: p, w: w, d: d, res: res}
		budget := w.TimerBudget
		w.TimerBudget = 3 // nothing waits on a timer while connections are set up
		for _, cs := range p.Conns {
			e.conns = append(e.conns, w.Connect(cs.Port))
			if !w.Settle() {
				res.Infra = "step budget exhausted while connecting"
				return
			}
		}
		w.TimerBudget = budget
		e.next = make([]int, len(e.conns))
		e.cur = make([]*HistOp, len(e.conns))
		e.ghost = map[int]bool{}
		for _, gi := range p.XV {
			for _, ci := range gi {
				e.ghost[int(ci)] = true
			}
		}
		w.SegMode = p.Seg
		w.KeepWaiting = nil
		ok, why := e.run()
		viol := func(rule, class, format string, a ...interface{}) {
			if res.V == nil {
				res.V = &Violation{Prop: "C14", Rule: rule, Step: len(e.hist), Class: rule + ":" + class, Msg: fmt.Sprintf(format, a...)}
			}
		}
		cfgClass := p.Cfg.L1
		if p.Cfg.HasL2() {
			cfgClass += "+" + p.Cfg.L2
		}
		if faults := w.Run.TakeFaults(); len(faults) > 0 {
			viol("pool_misuse", cfgClass, "%s", strings.Join(faults, "; "))
			return
		}
		if !ok {
			viol("hang", cfgClass, "%s", why)
			return
		}
		// per connection: replies equal the reference map's for that connection alone
		perConn := make([][]*HistOp, len(e.conns))
		for _, h := range e.hist {
			perConn[h.Conn] = append(perConn[h.Conn], h)
		}
		for ci, hs := range perConn {
			if e.ghost[ci] {
				continue // a ghost never reads its replies
			}
			ref := model.NewStore(w.Now)
			proto := p.Conns[ci].Proto
			for _, h := range hs {
				exp := applyModel(ref, h.Op)
				class := h.Op.Kind + "/" + cfgClass
				if h.Closed {
					viol("closed", class, "connection c%d was closed by rend during %s (%d connections active)", ci, h.Op, len(e.conns))
					return
				}
				if h.Obs.Garbage != "" {
					viol("garbage", class, "connection c%d: reply to %s is not well formed: %s (%q)", ci, h.Op, h.Obs.Garbage, trunc(h.Reply))
					return
				}
				if m := compareOutcome(proto, h.Op, h.Obs, exp); m != "" {
					viol("reply", class, "connection c%d, alone, would see something else: %s -> %s", ci, h.Op, m)
					return
				}
				if len(h.Obs.Discipline) > 0 {
					viol("reply", class, "connection c%d: %s: %s", ci, h.Op, strings.Join(h.Obs.Discipline, "; "))
					return
				}
			}
		}
		res.probe(fmt.Sprintf("conns_%d", min(len(e.conns)/8*8, 64)))
	})
}

func genC14(seed uint64, tier string) Plan {
	g := newGen(seed)
	c := stack.Cfg{GetEAbsolute: g.p(1, 2)}
	c.Shape = pick(g, []string{"l1only", "l1l2", "l1l2", "l1l2batch", "l1l2batch"})
	c.L1 = pick(g, []string{"std", "std", "chunked", "chunked", "batched"})
	c.L2 = pick(g, []string{"std", "std", "std", "batched"})
	if c.Shape == "l1only" {
		c.L2 = ""
	}
	if g.p(1, 3) {
		c.Locked = true
		c.MultiReader = g.p(1, 2)
		c.Concurrency = uint8(g.n(3))
	}
	if c.L1 == "batched" || c.L2 == "batched" {
		c.BatchSize = uint32(pick(g, []int{1, 2, 4, 10}))
		c.BatchDelayMicros = uint32(pick(g, []int{50, 250, 1000}))
		c.BatchEvalSec = 1 << 28
	}
	p := Plan{Prop: "C14", Seed: seed, Cfg: c, Seg: pick(g, []int{0, 0, 2}), X: map[string]int64{"sticky": int64(g.n(2))}}
	nconn := pick(g, []int{2, 2, 3, 4, 6, 8, 16})
	if g.p(1, 15) {
		nconn = 32 + g.n(33)
	}
	maxOps := 8
	if nconn > 8 {
		maxOps = 4
	}
	var opq uint32 = 100
	for i := 0; i < nconn; i++ {
		port := "main"
		if c.Shape == "l1l2batch" && g.p(1, 2) {
			port = "batch"
		}
		cs := ConnSpec{Port: port, Proto: pick(g, []string{"text", "bin"})}
		p.Conns = append(p.Conns, cs)
		keys := []string{fmt.Sprintf("c%d-x", i), fmt.Sprintf("c%d-y", i)}
		var prog []wire.Op
		for j := 0; j < 1+g.n(maxOps); j++ {
			op := g.dataOp(cs.Proto, keys, 946684800, false, &opq)
			// closed-loop clients need replies whose completeness is decidable from the bytes
			op.Quiet = false
			if op.Kind == "get" && cs.Proto == "bin" && len(op.Keys) > 1 {
				for k := range op.Quiets {
					op.Quiets[k] = true
				}
				op.Noop = true
			}
			if cs.Proto == "bin" && op.Kind == "get" && len(op.Keys) == 1 {
				op.Quiets = []bool{false}
				op.Noop = false
			}
			op.TTL = 0
			if c.L1 == "chunked" && len(op.Data) > 0 && g.p(1, 3) {
				op.Data = g.value(pick(g, []int{1200, 2500}))
			}
			prog = append(prog, op)
		}
		p.Progs = append(p.Progs, prog)
	}
	// in a third of the runs one or two connections are ghosts: they pipeline everything
	// (preferably commands that fail) and disconnect without reading a single reply
	if g.p(1, 3) && nconn >= 3 {
		var ghosts []uint64
		for k := 0; k < 1+g.n(2); k++ {
			gi := g.n(nconn)
			ghosts = append(ghosts, uint64(gi))
			if p.Conns[gi].Proto == "bin" {
				// make sure error replies are owed: misses and failing stores on keys nobody wrote
				p.Progs[gi] = append(p.Progs[gi],
					wire.Op{Kind: "get", Keys: []string{fmt.Sprintf("c%d-never", gi)}, Quiets: []bool{false}, Opaque: 77000 + uint32(gi)},
					wire.Op{Kind: "replace", Key: fmt.Sprintf("c%d-never", gi), Data: []byte("x"), Opaque: 78000 + uint32(gi)},
					wire.Op{Kind: "delete", Key: fmt.Sprintf("c%d-never", gi), Opaque: 79000 + uint32(gi)})
			}
		}
		p.XV = [][]uint64{ghosts}
	}
	return p
}

func init() {
	register(&Prop{
		ID: "C14", Gen: genC14, Exec: execC14,
		Nontrivial: func(p Plan, r Result) bool { return len(p.Conns) >= 2 },
		Rule:       "2-64 connections (main and batch port, text and binary), each running a closed-loop random command sequence incl. failing commands (error replies with bodies) on its own private keys, on every orchestrator (L1-only, L1/L2, batch port; with and without the shared lock set) x L1 handler {direct, chunked, batched pool} x L2 handler {direct, batched pool}. The kernel chooses among client sends, lock grants, individual backend requests and reply segments (uniform or depth-first-sticky); clock ticks drive the pool's batch delay. Every sync.Pool of rend runs in poison mode: an object is overwritten with 0xA5 when it is returned, so a header or buffer touched after Put yields a wrong length or status on the spot, and a double Put is reported. In a third of the runs one or two connections are ghosts: they pipeline all their requests (ending with commands that fail) and disconnect without reading, in EPIPE or silent write mode, half of them after a stream that is cut at a chosen byte (in the middle of a request). Oracle: each (non-ghost) connection's replies equal the reference map's for its own sequence alone, no hang, no pool misuse. The literal data-race clause (Go memory model) is outside what a serialising simulator can see; it is not claimed by this check. Non-trivial = at least two connections; distinct = distinct plan hash",
		Real:       append(append([]string{}, realFullStack...), "handlers/memcached/chunked", "handlers/memcached/batched", "protocol/binprot pools (in poison mode)"),
		Stub:       append(append([]string{}, stubFullStack...), "sync.Pool: deterministic LIFO free list that poisons on Put"),
		RaceTest:   "TestRaceServer",
		RunsQuick:  2500, RunsThorough: 80000, Chunk: 250,
	})
}
