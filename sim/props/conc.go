package props

import (
	"fmt"
	"sort"
	"time"

	"github.com/anishathalye/porcupine"

	"rendsim/kernel"
	"rendsim/simnet"
	"rendsim/stack"
	"rendsim/wire"
)

// HistOp is one client command of a concurrent history.
type HistOp struct {
	Conn   int
	Idx    int
	Op     wire.Op
	Call   int64
	Ret    int64 // 0 while outstanding
	Obs    Obs
	Reply  []byte
	Closed bool
}

// concEnv is a concurrent full-stack run: every connection runs its own program
// closed-loop (next request after the complete reply of the previous one); the
// kernel chooses among all enabled events: client sends, lock grants, individual
// backend requests, reply segments.
type concEnv struct {
	plan      Plan
	w         *kernel.World
	d         *stack.Deployment
	conns     []*kernel.ClientConn
	next      []int // next op index per connection
	cur       []*HistOp
	hist      []*HistOp
	stamp     int64
	res       *Result
	lastOwner string
	ghost     map[int]bool
}

// binary multi-key gets in concurrent programs use the NOOP-terminated form so that
// reply completeness is decidable from the bytes alone.
func replyCompleteNoModel(proto string, op wire.Op, buf []byte) bool {
	if len(buf) == 0 {
		return false
	}
	o := decodeReply(proto, op, buf, false)
	if o.Incomplete {
		return false
	}
	if o.Garbage != "" {
		return true
	}
	if op.Kind == "get" {
		if o.Status != "ok" {
			return true
		}
		if proto == "text" || op.Noop {
			return o.Term >= 1
		}
		// GETQ* GET: the batch ends with the answer (hit or miss) to its last, non-quiet key
		last := len(op.Keys) - 1
		for _, v := range o.Values {
			if v.Idx == last {
				return true
			}
		}
		for _, m := range o.Misses {
			if m == last {
				return true
			}
		}
		return false
	}
	return o.Status != "none"
}

func (e *concEnv) tick() int64 { e.stamp++; return e.stamp }

// harvest completes outstanding operations whose reply is complete.
func (e *concEnv) harvest() {
	for ci, h := range e.cur {
		if h == nil {
			continue
		}
		cc := e.conns[ci]
		proto := e.plan.Conns[ci].Proto
		buf := cc.Unread()
		closed := cc.C.ClosedByRend()
		if replyCompleteNoModel(proto, h.Op, buf) || closed {
			h.Reply = append([]byte(nil), buf...)
			cc.Consume(len(buf))
			h.Obs = decodeReply(proto, h.Op, h.Reply, closed)
			h.Closed = closed
			h.Ret = e.tick()
			e.cur[ci] = nil
			if closed {
				e.next[ci] = len(e.plan.Progs[ci]) // connection is gone
			}
		}
	}
}

func (e *concEnv) sendEvents() []kernel.Event {
	var evs []kernel.Event
	for ci := range e.conns {
		ci := ci
		if e.cur[ci] != nil || e.next[ci] >= len(e.plan.Progs[ci]) {
			continue
		}
		if e.ghost[ci] {
			// a ghost writes everything it has left in one go and disappears without
			// reading: whatever rend still owes it meets a dead socket
			evs = append(evs, kernel.Event{Label: fmt.Sprintf("ghost c%d", ci), Prio: 3, Owner: e.conns[ci].Name, Do: func() {
				var data []byte
				for _, op := range e.plan.Progs[ci][e.next[ci]:] {
					data = append(data, encode(e.plan.Conns[ci].Proto, op)...)
				}
				e.next[ci] = len(e.plan.Progs[ci])
				// half of the ghosts die in the middle of a request: the stream is cut at a
				// chosen byte (choice 0 = the whole stream)
				if len(data) > 0 && e.w.Ch.Bool(1, 2, "ghost truncates") {
					data = data[:len(data)-e.w.Ch.Choose(len(data)+1, "ghost cut")]
				}
				e.w.Deliver(e.conns[ci], data)
				mode := simnet.PeerClosed
				if e.w.Ch.Bool(1, 3, "ghost silent") {
					mode = simnet.PeerClosedSilent
				}
				e.conns[ci].C.PeerClose(mode)
				e.w.Stat.FaultsFired["ghost_disconnect"]++
			}})
			continue
		}
		evs = append(evs, kernel.Event{Label: fmt.Sprintf("send c%d", ci), Prio: 3, Owner: e.conns[ci].Name, Do: func() {
			op := e.plan.Progs[ci][e.next[ci]]
			h := &HistOp{Conn: ci, Idx: e.next[ci], Op: op, Call: e.tick()}
			e.next[ci]++
			e.cur[ci] = h
			e.hist = append(e.hist, h)
			e.w.Deliver(e.conns[ci], encode(e.plan.Conns[ci].Proto, op))
		}})
	}
	return evs
}

// run drives the concurrent program to completion. It returns false on a hang
// (nothing enabled while operations are outstanding) or step overrun.
func (e *concEnv) run() (ok bool, why string) {
	w := e.w
	idle := 0
	for {
		w.Quiesce()
		if w.Overrun {
			return false, "step budget exhausted"
		}
		e.harvest()
		evs := append(w.Internal(), e.sendEvents()...)
		if len(evs) == 0 {
			outstanding := 0
			for _, h := range e.cur {
				if h != nil {
					outstanding++
				}
			}
			if outstanding == 0 {
				return true, ""
			}
			if w.TimerStep > 0 && idle < w.TimerBudget {
				idle++
				w.Advance(w.TimerStep)
				continue
			}
			var desc []string
			for _, h := range e.cur {
				if h != nil {
					desc = append(desc, fmt.Sprintf("c%d %s", h.Conn, h.Op))
				}
			}
			var parked []string
			for _, p := range w.Run.ParkedList() {
				parked = append(parked, p.Label())
			}
			return false, fmt.Sprintf("nothing can happen any more but %v still wait for a reply (parked: %v)", desc, parked)
		}
		idle = 0
		ev := evs[e.choose(evs)]
		e.lastOwner = ev.Owner
		ev.Do()
	}
}

// choose implements the scheduling policies: uniform, or "sticky" (keep serving the
// same connection's events with high probability, which yields deep orderings).
func (e *concEnv) choose(evs []kernel.Event) int {
	if len(evs) == 1 {
		return 0
	}
	if e.plan.X["sticky"] != 0 && e.lastOwner != "" {
		// with probability 3/4 keep serving the connection served last (depth first
		// along one connection's chain of events), else uniform
		for i, ev := range evs {
			if ev.Owner == e.lastOwner {
				if !e.w.Ch.Bool(1, 4, "switch") {
					return i
				}
				break
			}
		}
	}
	return e.w.Ch.Choose(len(evs), "event")
}

// ---- linearizability against the per-key map model (porcupine) ----

type kvState struct {
	Present bool
	Val     string
	Flags   uint32
}

type kvIn struct {
	Kind  string
	Val   string
	Flags uint32
}

type kvOut struct {
	Status string // ok | notfound | exists | notstored | hit | miss
	Val    string
	Flags  uint32
}

var kvModel = porcupine.Model{
	Init: func() interface{} { return kvState{} },
	Step: func(state, input, output interface{}) (bool, interface{}) {
		s, in, out := state.(kvState), input.(kvIn), output.(kvOut)
		fail := func(accept ...string) (bool, interface{}) {
			for _, a := range accept {
				if out.Status == a {
					return true, s
				}
			}
			return false, s
		}
		switch in.Kind {
		case "set":
			return out.Status == "ok", kvState{true, in.Val, in.Flags}
		case "add":
			if s.Present {
				return fail("exists", "notstored")
			}
			return out.Status == "ok", kvState{true, in.Val, in.Flags}
		case "replace":
			if !s.Present {
				return fail("notfound", "notstored")
			}
			return out.Status == "ok", kvState{true, in.Val, in.Flags}
		case "append":
			if !s.Present {
				return fail("notstored", "notfound")
			}
			return out.Status == "ok", kvState{true, s.Val + in.Val, s.Flags}
		case "prepend":
			if !s.Present {
				return fail("notstored", "notfound")
			}
			return out.Status == "ok", kvState{true, in.Val + s.Val, s.Flags}
		case "delete":
			if !s.Present {
				return fail("notfound")
			}
			return out.Status == "ok", kvState{}
		case "touch":
			if !s.Present {
				return fail("notfound")
			}
			return out.Status == "ok", s
		case "get", "gat":
			if !s.Present {
				return out.Status == "miss", s
			}
			return out.Status == "hit" && out.Val == s.Val && out.Flags == s.Flags, s
		}
		return false, s
	},
	DescribeOperation: func(input, output interface{}) string {
		in, out := input.(kvIn), output.(kvOut)
		return fmt.Sprintf("%s(%s,%d) -> %s(%s,%d)", in.Kind, shortS(in.Val), in.Flags, out.Status, shortS(out.Val), out.Flags)
	},
}

func shortS(s string) string {
	if len(s) > 12 {
		return s[:12] + ".."
	}
	return s
}

// keyOps converts a history into per-key porcupine operations. Operations whose
// outcome cannot be decoded yield an error string instead.
func keyOps(hist []*HistOp) (map[string][]porcupine.Operation, string) {
	per := map[string][]porcupine.Operation{}
	for _, h := range hist {
		if h.Ret == 0 {
			continue
		}
		add := func(k string, in kvIn, out kvOut) {
			per[k] = append(per[k], porcupine.Operation{ClientId: h.Conn, Input: in, Output: out, Call: h.Call, Return: h.Ret})
		}
		op := h.Op
		switch op.Kind {
		case "get":
			if h.Obs.Status != "ok" {
				return nil, fmt.Sprintf("c%d %s answered %s", h.Conn, op, h.Obs)
			}
			hits := map[int]ObsVal{}
			for _, v := range h.Obs.Values {
				if v.Idx >= 0 {
					hits[v.Idx] = v
				}
			}
			for i, k := range op.Keys {
				if v, ok := hits[i]; ok {
					add(k, kvIn{Kind: "get"}, kvOut{Status: "hit", Val: string(v.Data), Flags: v.Flags})
				} else {
					add(k, kvIn{Kind: "get"}, kvOut{Status: "miss"})
				}
			}
		case "gat":
			switch {
			case h.Obs.Status == "ok" && len(h.Obs.Values) == 1:
				add(op.Key, kvIn{Kind: "gat"}, kvOut{Status: "hit", Val: string(h.Obs.Values[0].Data), Flags: h.Obs.Values[0].Flags})
			case h.Obs.Status == "notfound":
				add(op.Key, kvIn{Kind: "gat"}, kvOut{Status: "miss"})
			default:
				return nil, fmt.Sprintf("c%d %s answered %s", h.Conn, op, h.Obs)
			}
		default:
			st := h.Obs.Status
			switch st {
			case "ok", "notfound", "exists", "notstored":
			default:
				return nil, fmt.Sprintf("c%d %s answered %s", h.Conn, op, h.Obs)
			}
			add(op.Key, kvIn{Kind: op.Kind, Val: string(op.Data), Flags: op.Flags}, kvOut{Status: st})
		}
	}
	return per, ""
}

// checkLinearizable runs porcupine per key (outside the bubble: porcupine uses
// real timers and its own goroutines). Unknown (timeout) is never reported.
// linTimeout bounds one porcupine search; Unknown verdicts are counted, never reported.
var linTimeout = 20 * time.Second

func checkLinearizable(hist []*HistOp) (illegalKey string, detail string, unknown int, badOp string) {
	per, bad := keyOps(hist)
	if bad != "" {
		return "", "", 0, bad
	}
	keys := make([]string, 0, len(per))
	for k := range per {
		keys = append(keys, k)
	}
	sort.Strings(keys)
	for _, k := range keys {
		ops := per[k]
		switch porcupine.CheckOperationsTimeout(kvModel, ops, linTimeout) {
		case porcupine.Illegal:
			var lines []string
			sort.Slice(ops, func(i, j int) bool { return ops[i].Call < ops[j].Call })
			for _, o := range ops {
				lines = append(lines, fmt.Sprintf("c%d [%d,%d] %s", o.ClientId, o.Call, o.Return, kvModel.DescribeOperation(o.Input, o.Output)))
			}
			return k, fmt.Sprint(lines), unknown, ""
		case porcupine.Unknown:
			unknown++
		}
	}
	return "", "", unknown, ""
}
