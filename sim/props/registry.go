package props

import (
	"testing"

	"rendsim/kernel"
)

// Prop describes how one property is decided.
type Prop struct {
	ID   string
	Gen  func(seed uint64, tier string) Plan
	Exec func(t *testing.T, p Plan, src kernel.Source) Result
	// Nontrivial says whether an executed plan counts towards distinct_nontrivial.
	Nontrivial func(p Plan, r Result) bool
	Rule       string   // how cases are generated and what makes one non-trivial
	Real       []string // components that ran real code
	Stub       []string // components that are simulator-owned
	Assume     []string
	// Enumerate, if set, yields the plans of an exhaustive sub-space (tier dependent).
	Enumerate func(tier string) []Plan
	// RunsQuick / RunsThorough: number of seeded runs per tier.
	RunsQuick, RunsThorough int
	Level                   string // exploration | fault_enumeration
	FaultKinds              []string
	Chunk                   int // runs per worker process
	// RaceTest names the test of package rendsim/race that the driver runs as the
	// auxiliary real-parallel -race stage for this property ("" = none).
	RaceTest string
}

var registry = map[string]*Prop{}

func register(p *Prop) { registry[p.ID] = p }

var realFullStack = []string{"server.ListenAndServe", "server.DefaultServer.Loop", "protocol/binprot", "protocol/textprot", "orcas (L1Only, L1L2, L1L2Batch, Locked)", "handlers/memcached constructors", "handlers/memcached/std"}
var stubFullStack = []string{"memcached backends (mcfake)", "network (simnet)", "listeners", "clock (testing/synctest)", "clients (scripted, independent codec)", "sync/net/rand primitives listed in DESIGN.md §2.2"}
