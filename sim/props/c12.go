package props

import (
	"bufio"
	"errors"
	"fmt"
	"io"
	"strings"
	"testing"

	"github.com/netflix/rend/common"
	"github.com/netflix/rend/handlers"
	"github.com/netflix/rend/protocol"

	"rendsim/kernel"
	"rendsim/shadow/hub"
	"rendsim/stack"
	"rendsim/wire"
)

// C12 — key locks are always released and a failure below closes the connection.
//
// Faults are injected through decorators on seams rend already has: a
// handlers.Handler wrapper (L1 / L2) and a protocol.Responder wrapper. At the
// k-th call (counted from the moment the fault is armed) the decorator panics
// before delegating, panics after delegating, or returns an error (an I/O error, or in half of the cases a backend error reply: busy / out of memory).

type faultCtl struct {
	pval   int // what the injected panic carries: 0 string, 1 io.EOF, 2 another error value, 3 a runtime error
	armed  bool
	target string // l1 | l2 | res
	k      int
	mode   string // panic_before | panic_after | error
	calls  map[string]int
	fired  bool
}

var errInjected = errors.New("injected I/O error")

// injErr is what the "error" mode returns: an I/O error (the connection underneath is
// gone) or, in half of the cases, an error reply of the backend (busy, out of memory),
// after which the connection and the command go on.
func (c *faultCtl) injErr() error {
	switch c.pval {
	case 2:
		return common.ErrBusy
	case 3:
		return common.ErrNoMem
	}
	return errInjected
}

// boom panics with the kind of value the plan asks for. Layers underneath rend can
// panic with anything: a string, an error value such as io.EOF, a runtime error.
func (c *faultCtl) boom(where string) {
	switch c.pval {
	case 1:
		panic(io.EOF)
	case 2:
		panic(errors.New("injected error value (" + where + ")"))
	case 3:
		var m map[string]int
		m[where] = 1 // runtime error: assignment to entry in nil map
	}
	panic("injected panic " + where)
}

// hit reports whether this call is the faulty one and advances the counter.
func (c *faultCtl) hit(target string) bool {
	if !c.armed || c.fired || target != c.target {
		return false
	}
	n := c.calls[target]
	c.calls[target] = n + 1
	if n == c.k {
		c.fired = true
		return true
	}
	return false
}

type faultHandler struct {
	handlers.Handler
	ctl  *faultCtl
	tier string
}

func (h faultHandler) guard(call func() error) error {
	if h.ctl.hit(h.tier) {
		switch h.ctl.mode {
		case "panic_before":
			h.ctl.boom("before " + h.tier + " call")
		case "panic_after":
			call()
			h.ctl.boom("after " + h.tier + " call")
		default:
			return h.ctl.injErr()
		}
	}
	return call()
}

func (h faultHandler) Set(c common.SetRequest) error {
	return h.guard(func() error { return h.Handler.Set(c) })
}
func (h faultHandler) Add(c common.SetRequest) error {
	return h.guard(func() error { return h.Handler.Add(c) })
}
func (h faultHandler) Replace(c common.SetRequest) error {
	return h.guard(func() error { return h.Handler.Replace(c) })
}
func (h faultHandler) Append(c common.SetRequest) error {
	return h.guard(func() error { return h.Handler.Append(c) })
}
func (h faultHandler) Prepend(c common.SetRequest) error {
	return h.guard(func() error { return h.Handler.Prepend(c) })
}
func (h faultHandler) Delete(c common.DeleteRequest) error {
	return h.guard(func() error { return h.Handler.Delete(c) })
}
func (h faultHandler) Touch(c common.TouchRequest) error {
	return h.guard(func() error { return h.Handler.Touch(c) })
}
func (h faultHandler) GAT(c common.GATRequest) (common.GetResponse, error) {
	var r common.GetResponse
	err := h.guard(func() error {
		var e error
		r, e = h.Handler.GAT(c)
		return e
	})
	return r, err
}
func (h faultHandler) Get(c common.GetRequest) (<-chan common.GetResponse, <-chan error) {
	if h.ctl.hit(h.tier) {
		switch h.ctl.mode {
		case "panic_before":
			h.ctl.boom("before " + h.tier + " get")
		case "panic_after":
			rc, ec := h.Handler.Get(c)
			for range rc {
			}
			for range ec {
			}
			h.ctl.boom("after " + h.tier + " get")
		default:
			rc := make(chan common.GetResponse)
			ec := make(chan error, 1)
			ec <- h.ctl.injErr()
			close(rc)
			close(ec)
			return rc, ec
		}
	}
	return h.Handler.Get(c)
}
func (h faultHandler) GetE(c common.GetRequest) (<-chan common.GetEResponse, <-chan error) {
	if h.ctl.hit(h.tier) {
		switch h.ctl.mode {
		case "panic_before":
			h.ctl.boom("before " + h.tier + " gete")
		case "panic_after":
			rc, ec := h.Handler.GetE(c)
			for range rc {
			}
			for range ec {
			}
			h.ctl.boom("after " + h.tier + " gete")
		default:
			rc := make(chan common.GetEResponse)
			ec := make(chan error, 1)
			ec <- h.ctl.injErr()
			close(rc)
			close(ec)
			return rc, ec
		}
	}
	return h.Handler.GetE(c)
}

type faultResponder struct {
	protocol.Responder
	ctl *faultCtl
}

func (r faultResponder) guard(call func() error) error {
	if r.ctl.hit("res") {
		switch r.ctl.mode {
		case "panic_before":
			r.ctl.boom("before responder call")
		case "panic_after":
			call()
			r.ctl.boom("after responder call")
		default:
			return errInjected
		}
	}
	return call()
}

func (r faultResponder) Set(o uint32, q bool) error {
	return r.guard(func() error { return r.Responder.Set(o, q) })
}
func (r faultResponder) Add(o uint32, q bool) error {
	return r.guard(func() error { return r.Responder.Add(o, q) })
}
func (r faultResponder) Replace(o uint32, q bool) error {
	return r.guard(func() error { return r.Responder.Replace(o, q) })
}
func (r faultResponder) Append(o uint32, q bool) error {
	return r.guard(func() error { return r.Responder.Append(o, q) })
}
func (r faultResponder) Prepend(o uint32, q bool) error {
	return r.guard(func() error { return r.Responder.Prepend(o, q) })
}
func (r faultResponder) Get(x common.GetResponse) error {
	return r.guard(func() error { return r.Responder.Get(x) })
}
func (r faultResponder) GetEnd(o uint32, n bool) error {
	return r.guard(func() error { return r.Responder.GetEnd(o, n) })
}
func (r faultResponder) GAT(x common.GetResponse) error {
	return r.guard(func() error { return r.Responder.GAT(x) })
}
func (r faultResponder) Delete(o uint32) error {
	return r.guard(func() error { return r.Responder.Delete(o) })
}
func (r faultResponder) Touch(o uint32) error {
	return r.guard(func() error { return r.Responder.Touch(o) })
}

type faultComps struct {
	protocol.Components
	ctl *faultCtl
}

func (c faultComps) NewResponder(w *bufio.Writer) protocol.Responder {
	return faultResponder{Responder: c.Components.NewResponder(w), ctl: c.ctl}
}

func faultWrappers(ctl *faultCtl) *stack.Wrappers {
	wrapH := func(tier string) func(handlers.HandlerConst) handlers.HandlerConst {
		return func(hc handlers.HandlerConst) handlers.HandlerConst {
			return func() (handlers.Handler, error) {
				h, err := hc()
				if err != nil || h == nil {
					return h, err
				}
				return faultHandler{Handler: h, ctl: ctl, tier: tier}, nil
			}
		}
	}
	return &stack.Wrappers{
		H1: wrapH("l1"), H2: wrapH("l2"),
		Prot: func(ps []protocol.Components) []protocol.Components {
			out := make([]protocol.Components, len(ps))
			for i, p := range ps {
				out[i] = faultComps{Components: p, ctl: ctl}
			}
			return out
		},
	}
}

// locksHeldBy replays the lock log and returns, per connection, the number of key
// locks currently held and the maximum held at any instant.
func locksHeldBy(log []hub.LockEvent) (held map[string]int, max map[string]int) {
	held, max = map[string]int{}, map[string]int{}
	for _, e := range log {
		switch e.Op {
		case "lock", "rlock":
			held[e.Who]++
			if held[e.Who] > max[e.Who] {
				max[e.Who] = held[e.Who]
			}
		default:
			held[e.Who]--
		}
	}
	return
}

func execC12(t *testing.T, p Plan, src kernel.Source) Result {
	if p.Mode == "deadlock" {
		return execC12Deadlock(t, p, src)
	}
	ctl := &faultCtl{calls: map[string]int{}, target: p.XS["target"], k: int(p.X["k"]), mode: p.XS["mode"], pval: int(p.X["pval"])}
	return inBubble(t, p.Seed, src, func(w *kernel.World, res *Result) {
		w.LogEvents = p.X["log"] != 0
		w.SegMode = p.Seg
		w.Run.ManagePkgs = []string{"/orcas"}
		stack.Build(w, p.Cfg, faultWrappers(ctl))
		var conns []*kernel.ClientConn
		for _, cs := range p.Conns {
			conns = append(conns, w.Connect(cs.Port))
			w.Settle()
		}
		viol := func(rule, class, format string, a ...interface{}) {
			if res.V == nil {
				res.V = &Violation{Prop: "C12", Rule: rule, Step: 0, Class: rule + ":" + class, Msg: fmt.Sprintf(format, a...)}
			}
		}
		victimStep := int(p.X["victim_step"])
		for i, st := range p.Steps {
			if st.Op == nil {
				continue
			}
			cc := conns[st.Conn]
			proto := p.Conns[st.Conn].Proto
			op := *st.Op
			if i == victimStep {
				ctl.armed = true
			}
			class := fmt.Sprintf("%s/%s/%s", op.Kind, p.XS["target"], p.XS["mode"])
			if cc.C.ClosedByRend() {
				continue
			}
			if !w.Send(cc, encode(proto, op)) {
				viol("no_quiescence", class, "no quiescence after %s", op)
				return
			}
			reply := append([]byte(nil), cc.Unread()...)
			cc.Consume(len(reply))
			closed := cc.C.ClosedByRend()
			fault := fmt.Sprintf("%s at call #%d of %s", ctl.mode, ctl.k, ctl.target)
			if ctl.mode != "error" {
				fault += " carrying " + []string{"a string", "io.EOF", "an error value", "a runtime error"}[ctl.pval]
			} else {
				fault += " = " + ctl.injErr().Error()
			}
			if i == victimStep {
				ctl.armed = false
				if ctl.fired {
					w.Stat.FaultsFired[ctl.mode+"_"+ctl.target]++
				}
				// an Unlock of a lock that is not held ends a real process ("fatal error: sync:
				// unlock of unlocked mutex" cannot be recovered); the simulated locks report it
				if faults := w.Run.TakeFaults(); len(faults) > 0 {
					viol("bad_unlock", class, "%s (%s): %s", op, fault, strings.Join(faults, "; "))
					return
				}
				held, max := locksHeldBy(w.Run.LockLog)
				for who, n := range held {
					if n != 0 {
						viol("lock_leaked", class, "%s (%s): connection %s still holds %d key lock(s) after the command ended", op, fault, who, n)
						return
					}
				}
				for who, n := range max {
					if n > 1 {
						viol("two_locks", class, "%s (%s): connection %s held %d key locks at the same time", op, fault, who, n)
						return
					}
				}
				if ctl.fired && ctl.mode != "error" && !closed {
					done := replyCompleteNoModel(proto, op, reply)
					viol("panic_not_closing", class, "%s (%s): after the panic underneath the connection was not closed (reply complete: %v, reply %q) - the client would wait forever", op, fault, done, trunc(reply))
					return
				}
				// an I/O error reported by the responder means the client socket is dead:
				// there is nobody to wait for a reply, only the locks matter
				respErr := ctl.fired && ctl.target == "res" && ctl.mode == "error"
				if !closed && !respErr && !replyCompleteNoModel(proto, op, reply) && !(op.Quiet && proto == "bin") {
					viol("hang", class, "%s (%s): connection open, system quiescent, reply incomplete (%q)", op, fault, trunc(reply))
					return
				}
				continue
			}
			if i > victimStep {
				// the next command on the key from another connection must proceed
				if closed || !replyCompleteNoModel(proto, op, reply) {
					var parked []string
					for _, pk := range w.Run.ParkedList() {
						parked = append(parked, pk.Label())
					}
					viol("next_blocked", class, "after %s the command %s of another connection did not complete (closed=%v reply=%q parked=%v)", fault, op, closed, trunc(reply), parked)
					return
				}
			}
		}
		if !ctl.fired {
			res.Trivial = true
		}
	})
}

// execC12Deadlock: concurrent multi-key gets on overlapping keys in opposite orders,
// mixed with writers; the oracle is "no hang" and "never two locks per connection".
func execC12Deadlock(t *testing.T, p Plan, src kernel.Source) Result {
	return inBubble(t, p.Seed, src, func(w *kernel.World, res *Result) {
		w.LogEvents = p.X["log"] != 0
		w.Run.ManagePkgs = []string{"/orcas"}
		d := stack.Build(w, p.Cfg, nil)
		e := &concEnv{plan: p, w: w, d: d, res: res}
		for _, cs := range p.Conns {
			e.conns = append(e.conns, w.Connect(cs.Port))
			w.Settle()
		}
		e.next = make([]int, len(e.conns))
		e.cur = make([]*HistOp, len(e.conns))
		ok, why := e.run()
		if !ok {
			res.V = &Violation{Prop: "C12", Rule: "deadlock", Step: len(e.hist), Class: "deadlock", Msg: why}
			return
		}
		if faults := w.Run.TakeFaults(); len(faults) > 0 {
			res.V = &Violation{Prop: "C12", Rule: "bad_unlock", Step: len(e.hist), Class: "bad_unlock:concurrent", Msg: strings.Join(faults, "; ")}
			return
		}
		held, max := locksHeldBy(w.Run.LockLog)
		for who, n := range held {
			if n != 0 {
				res.V = &Violation{Prop: "C12", Rule: "lock_leaked", Step: len(e.hist), Class: "lock_leaked:concurrent", Msg: fmt.Sprintf("connection %s still holds %d key lock(s) after all commands completed", who, n)}
				return
			}
		}
		for who, n := range max {
			if n > 1 {
				res.V = &Violation{Prop: "C12", Rule: "two_locks", Step: len(e.hist), Class: "two_locks:concurrent", Msg: fmt.Sprintf("connection %s held %d key locks at the same time", who, n)}
				return
			}
		}
	})
}

var c12Targets = []string{"l1", "l2", "res"}
var c12Modes = []string{"panic_before", "panic_after", "error"}

func c12Plan(seed uint64, cfg stack.Cfg, proto, port string, victim wire.Op, target, mode string, k int) Plan {
	key := victim.Key
	if key == "" && len(victim.Keys) > 0 {
		key = victim.Keys[0]
	}
	p := Plan{Prop: "C12", Seed: seed, Cfg: cfg, Conns: []ConnSpec{{Port: port, Proto: proto}, {Port: "main", Proto: "text"}},
		X: map[string]int64{"k": int64(k), "victim_step": 2}, XS: map[string]string{"target": target, "mode": mode}}
	pre1 := wire.Op{Kind: "set", Key: "a", Data: []byte("v-a"), Flags: 1, Opaque: 11}
	pre2 := wire.Op{Kind: "set", Key: "bb", Data: []byte("v-bb"), Flags: 2, Opaque: 12}
	after1 := wire.Op{Kind: "set", Key: key, Data: []byte("after"), Flags: 3}
	after2 := wire.Op{Kind: "get", Keys: []string{key}}
	p.Steps = []Step{{Conn: 0, Op: &pre1}, {Conn: 0, Op: &pre2}, {Conn: 0, Op: &victim}, {Conn: 1, Op: &after1}, {Conn: 1, Op: &after2}}
	return p
}

func c12Victims(proto string) []wire.Op {
	ops := []wire.Op{
		{Kind: "set", Key: "a", Data: []byte("new"), Opaque: 100},
		{Kind: "add", Key: "zz", Data: []byte("new"), Opaque: 110},
		{Kind: "replace", Key: "a", Data: []byte("new"), Opaque: 120},
		{Kind: "append", Key: "a", Data: []byte("+"), Opaque: 130},
		{Kind: "prepend", Key: "a", Data: []byte("+"), Opaque: 140},
		{Kind: "delete", Key: "a", Opaque: 150},
		{Kind: "touch", Key: "a", TTL: 100, Opaque: 160},
		{Kind: "get", Keys: []string{"a"}, Quiets: []bool{false}, Opaque: 170},
		{Kind: "get", Keys: []string{"zz"}, Quiets: []bool{false}, Opaque: 175},
	}
	if proto == "text" {
		ops = append(ops, wire.Op{Kind: "get", Keys: []string{"a", "zz", "bb"}, Quiets: []bool{false, false, false}})
	} else {
		ops = append(ops,
			wire.Op{Kind: "get", Keys: []string{"a", "zz", "bb"}, Quiets: []bool{true, true, false}, Opaque: 180},
			wire.Op{Kind: "get", Keys: []string{"bb", "a"}, Quiets: []bool{true, true}, Noop: true, Opaque: 190},
			wire.Op{Kind: "gat", Key: "a", TTL: 50, Opaque: 200},
			wire.Op{Kind: "gat", Key: "zz", TTL: 50, Opaque: 210},
		)
	}
	return ops
}

func enumC12(tier string) []Plan {
	var out []Plan
	n := 0
	maxK := 4
	if tier == "thorough" {
		maxK = 9
	}
	for _, shape := range []string{"l1only", "l1l2", "l1l2batch"} {
		for _, mr := range []bool{false, true} {
			cfg := stack.Cfg{Shape: shape, L1: "std", L2: "std", Locked: true, MultiReader: mr, Concurrency: 1, GetEAbsolute: true}
			if shape == "l1only" {
				cfg.L2 = ""
			}
			ports := []string{"main"}
			if shape == "l1l2batch" {
				ports = []string{"main", "batch"}
			}
			for _, port := range ports {
				for _, proto := range []string{"text", "bin"} {
					for _, v := range c12Victims(proto) {
						for _, target := range c12Targets {
							if target == "l2" && shape == "l1only" {
								continue
							}
							for _, mode := range c12Modes {
								for k := 0; k <= maxK; k++ {
									if tier != "thorough" && (n%3 != 0) && k > 1 {
										n++
										continue
									}
									n++
									pl := c12Plan(uint64(0xC12000+n), cfg, proto, port, v, target, mode, k)
									pl.X["pval"] = int64(n % 4)
									out = append(out, pl)
								}
							}
						}
					}
				}
			}
		}
	}
	return out
}

func genC12(seed uint64, tier string) Plan {
	g := newGen(seed)
	cfg := stack.Cfg{Shape: pick(g, []string{"l1only", "l1l2", "l1l2batch"}), L1: "std", L2: "std", Locked: true, MultiReader: g.p(1, 2), Concurrency: uint8(g.n(3)), GetEAbsolute: true}
	if g.p(1, 2) {
		// deadlock mode: concurrent overlapping multi-key gets in opposite orders + writers
		p := Plan{Prop: "C12", Seed: seed, Cfg: cfg, Mode: "deadlock", X: map[string]int64{"sticky": int64(g.n(2))}}
		keys := []string{"a", "bb", "k3", "key-4"}[:2+g.n(3)]
		nconn := 2 + g.n(3)
		var opq uint32 = 100
		for i := 0; i < nconn; i++ {
			port := "main"
			if cfg.Shape == "l1l2batch" && g.p(1, 2) {
				port = "batch"
			}
			cs := ConnSpec{Port: port, Proto: pick(g, []string{"text", "bin"})}
			p.Conns = append(p.Conns, cs)
			var prog []wire.Op
			for j := 0; j < 1+g.n(3); j++ {
				opq += 10
				if g.p(2, 3) {
					ks := append([]string{}, keys...)
					if i%2 == 1 {
						for a, b := 0, len(ks)-1; a < b; a, b = a+1, b-1 {
							ks[a], ks[b] = ks[b], ks[a]
						}
					}
					op := wire.Op{Kind: "get", Keys: ks, Opaque: opq}
					for range ks {
						op.Quiets = append(op.Quiets, cs.Proto == "bin")
					}
					if cs.Proto == "bin" {
						op.Noop = true
					} else {
						op.Opaque = 0
					}
					prog = append(prog, op)
				} else {
					prog = append(prog, g.concOp(cs.Proto, keys, &opq))
				}
			}
			p.Progs = append(p.Progs, prog)
		}
		return p
	}
	proto := pick(g, []string{"text", "bin"})
	port := "main"
	if cfg.Shape == "l1l2batch" && g.p(1, 2) {
		port = "batch"
	}
	target := pick(g, c12Targets)
	if cfg.Shape == "l1only" && target == "l2" {
		target = "l1"
	}
	pl := c12Plan(seed, cfg, proto, port, pick(g, c12Victims(proto)), target, pick(g, c12Modes), g.n(8))
	pl.X["pval"] = int64(g.n(4))
	return pl
}

func init() {
	register(&Prop{
		ID: "C12", Gen: genC12, Exec: execC12, Enumerate: enumC12, Level: "fault_enumeration",
		Nontrivial: func(p Plan, r Result) bool { return !r.Trivial },
		Rule:       "faults are injected through decorators on existing seams (handlers.Handler for L1/L2, protocol.Responder): at the k-th call made while the victim command runs the decorator panics before delegating, panics after delegating (the panic carries, in rotation, a string, io.EOF, another error value or a runtime error), or returns an error (an I/O error, or in half of the cases a backend error reply: busy / out of memory). Enumerated part: every command kind (hit and miss variants, single-, multi-key and quiet gets, gat) x {text, binary} x {main, batch port} x {L1-only, L1/L2, batch} x {single, multi reader} x target {L1, L2, responder} x mode x k = 0..4 (thorough: 0..9, every combination); runs in which call #k does not exist are counted as trivial. Seeded part: the same with drawn parameters, plus concurrent programs of 2-4 connections issuing multi-key gets over overlapping keys in opposite orders mixed with writers (deadlock check under kernel-chosen lock grants). Oracles from the instrumented key locks (every Lock/RLock/Unlock of package orcas is logged with the connection it runs for): no lock held after the command ended, never two locks per connection, the next command on the key from another connection completes, after a panic the victim connection is closed; non-trivial = the fault fired / concurrent program; distinct = distinct plan hash",
		Real:       realFullStack,
		Stub:       append(append([]string{}, stubFullStack...), "fault decorators around the real handlers and responders", "key locks: channel-based shadow of sync.Mutex/RWMutex, grants are kernel events"),
		FaultKinds: []string{"panic_before", "panic_after", "error"},
		RunsQuick:  3000, RunsThorough: 60000,
	})
}
