package props

import (
	"fmt"
	"strings"
	"testing"

	"rendsim/kernel"
	"rendsim/wire"
)

// C08 — reply discipline: one well-formed reply per request, one terminator per get.
//
// The oracle is the strict decoder plus attribution: text replies are consumed in
// request order, binary replies are attributed by opaque. The reference map is
// consulted only to know how many hits a get must produce.

// splitText distributes strictly decoded text frames over the pipelined requests.
// It returns per-request frames, or a discipline problem.
func splitText(ops []wire.Op, frames []wire.TextFrame) (per [][]wire.TextFrame, problem string) {
	per = make([][]wire.TextFrame, len(ops))
	i := 0
	for oi, op := range ops {
		switch op.Kind {
		case "get":
			done := false
			for i < len(frames) && !done {
				f := frames[i]
				per[oi] = append(per[oi], f)
				i++
				if !f.IsVal {
					done = true
				}
			}
			if !done {
				return per, fmt.Sprintf("request #%d (%s) has no terminator", oi, op)
			}
		case "stats":
			done := false
			for i < len(frames) && !done {
				f := frames[i]
				per[oi] = append(per[oi], f)
				i++
				if f.Line == "END" || !strings.HasPrefix(f.Line, "STAT ") {
					done = true
				}
			}
			if !done {
				return per, fmt.Sprintf("request #%d (stats) has no terminator", oi)
			}
		case "quit":
			if i < len(frames) {
				per[oi] = append(per[oi], frames[i])
				i++
			}
		default:
			if i >= len(frames) {
				return per, fmt.Sprintf("request #%d (%s) got no reply", oi, op)
			}
			per[oi] = append(per[oi], frames[i])
			i++
		}
	}
	if i < len(frames) {
		return per, fmt.Sprintf("%d reply element(s) beyond the last request, first: %s", len(frames)-i, frames[i])
	}
	return per, ""
}

// opaques owned by a binary request
func ownsOpaque(op wire.Op, opq uint32) bool {
	if op.Kind == "get" {
		n := uint32(len(op.Keys))
		if op.Noop {
			n++
		}
		return opq >= op.Opaque && opq < op.Opaque+n
	}
	return opq == op.Opaque
}

func splitBin(ops []wire.Op, frames []wire.BinFrame) (per [][]wire.BinFrame, problem string) {
	per = make([][]wire.BinFrame, len(ops))
	for _, f := range frames {
		owner := -1
		for oi, op := range ops {
			if ownsOpaque(op, f.Opaque) {
				owner = oi
				break
			}
		}
		if owner < 0 {
			return per, fmt.Sprintf("reply frame %s carries an opaque that no request sent", f)
		}
		per[owner] = append(per[owner], f)
	}
	return per, ""
}

// disciplineOf checks the reply to one request. hits is the number of keys of a
// get the reference map holds (−1 when unknown).
func disciplineOf(proto string, op wire.Op, o Obs, nframes int, hits int, expectFail bool) []string {
	probs := append([]string(nil), o.Discipline...)
	switch op.Kind {
	case "get":
		if hits >= 0 && o.Status == "ok" && len(o.Values) != hits {
			probs = append(probs, fmt.Sprintf("get answered %d values, the map holds %d of the requested keys", len(o.Values), hits))
		}
		if proto == "text" && o.Term != 1 {
			probs = append(probs, fmt.Sprintf("%d END lines", o.Term))
		}
		if proto == "bin" && o.Status == "ok" {
			// every non-quiet key that is not a hit is answered by an explicit miss
			hit := map[int]bool{}
			for _, v := range o.Values {
				hit[v.Idx] = true
			}
			missed := map[int]bool{}
			for _, m := range o.Misses {
				missed[m] = true
			}
			for ki := range op.Keys {
				q := ki < len(op.Quiets) && op.Quiets[ki]
				if !q && !hit[ki] && !missed[ki] {
					probs = append(probs, fmt.Sprintf("the non-quiet get of key #%d got no answer at all", ki))
				}
			}
		}
	case "set", "add", "replace", "append", "prepend":
		if op.Quiet && proto == "bin" {
			if !expectFail && nframes != 0 {
				probs = append(probs, fmt.Sprintf("quiet %s that succeeded got %d replies", op.Kind, nframes))
			}
			if expectFail && nframes != 1 {
				probs = append(probs, fmt.Sprintf("quiet %s that failed got %d replies", op.Kind, nframes))
			}
		} else if nframes != 1 {
			probs = append(probs, fmt.Sprintf("%s got %d replies", op.Kind, nframes))
		}
	case "delete", "touch", "gat", "noop", "version":
		if nframes != 1 {
			probs = append(probs, fmt.Sprintf("%s got %d replies", op.Kind, nframes))
		}
	}
	return probs
}

func (e *seqEnv) checkDiscipline(i int, proto string, op wire.Op, o Obs, reply []byte, class string) {
	if o.Garbage != "" {
		e.violate(i, "frame", class, "reply to %s is not well formed: %s (%q)", op, o.Garbage, trunc(reply))
		return
	}
	if o.Incomplete {
		e.violate(i, "incomplete", class, "reply to %s ends inside a frame although the system is quiescent (%q)", op, trunc(reply))
		return
	}
}

// pipeStep executes a pipeline of requests sent as one byte stream on one connection.
func (e *seqEnv) pipeStep(i int, st Step) {
	w := e.w
	if e.dead[st.Conn] {
		return
	}
	cc := e.conns[st.Conn]
	proto := e.plan.Conns[st.Conn].Proto
	var data []byte
	for _, op := range st.Pipe {
		data = append(data, encode(proto, op)...)
	}
	alignClock(w)
	w.KeepWaiting = nil
	if !w.Send(cc, data) {
		e.violate(i, "no_quiescence", "pipe", "the system did not become quiescent after a pipeline of %d requests", len(st.Pipe))
		return
	}
	reply := append([]byte(nil), cc.Unread()...)
	cc.Consume(len(reply))
	closed := cc.C.ClosedByRend()
	class := e.plan.Conns[st.Conn].Port + "/" + proto
	kinds := func() string {
		var ks []string
		for _, op := range st.Pipe {
			ks = append(ks, op.Kind)
		}
		return strings.Join(ks, ",")
	}
	// model: number of hits / expected failure per request
	type exp struct {
		hits int
		fail bool
		ex   Expect
	}
	exps := make([]exp, len(st.Pipe))
	quit := false
	for oi, op := range st.Pipe {
		ex := applyModel(e.ref, op)
		exps[oi] = exp{hits: len(ex.Hits), fail: ex.Outcome != 0, ex: ex}
		if op.Kind == "quit" {
			quit = true
		}
	}
	if closed && !quit {
		e.dead[st.Conn] = true
		e.violate(i, "closed", class, "rend closed the connection while serving the pipeline [%s] (replies so far %q)", kinds(), trunc(reply))
		return
	}
	if quit {
		e.dead[st.Conn] = true
	}
	if proto == "text" {
		frames, rest, err := wire.ParseText(reply)
		if err != nil {
			e.violate(i, "frame", class, "pipeline [%s]: reply stream is not well formed: %v (%q)", kinds(), err, trunc(reply))
			return
		}
		if len(rest) > 0 {
			e.violate(i, "incomplete", class, "pipeline [%s]: reply stream ends inside a frame although the system is quiescent (%q)", kinds(), trunc(rest))
			return
		}
		per, prob := splitText(st.Pipe, frames)
		if prob != "" {
			e.violate(i, "attribution", class, "pipeline [%s]: %s; replies %q", kinds(), prob, trunc(reply))
			return
		}
		for oi, op := range st.Pipe {
			var o Obs
			decodeTextFrames(&o, op, per[oi])
			finishObs(&o, false)
			if ps := e.textExtra(op, per[oi]); ps != "" {
				e.violate(i, "shape", class+"/"+op.Kind, "pipeline [%s] request #%d %s: %s", kinds(), oi, op, ps)
				return
			}
			if op.Kind == "stats" || op.Kind == "noop" || op.Kind == "version" || op.Kind == "quit" || op.Kind == "raw" {
				continue
			}
			if ps := disciplineOf(proto, op, o, len(per[oi]), exps[oi].hits, exps[oi].fail); len(ps) > 0 {
				e.violate(i, "discipline", class+"/"+op.Kind, "pipeline [%s] request #%d %s: %s; replies %q", kinds(), oi, op, strings.Join(ps, "; "), trunc(reply))
				return
			}
			// what each reply says (status, values, flags, which keys missed) is the map's answer
			if m := compareOutcome(proto, op, o, exps[oi].ex); m != "" {
				e.violate(i, "content", class+"/"+op.Kind, "pipeline [%s] request #%d %s -> %s", kinds(), oi, op, m)
				return
			}
		}
		return
	}
	frames, rest, err := wire.ParseBinary(reply)
	if err != nil {
		e.violate(i, "frame", class, "pipeline [%s]: reply stream is not well formed: %v (%q)", kinds(), err, trunc(reply))
		return
	}
	if len(rest) > 0 {
		e.violate(i, "incomplete", class, "pipeline [%s]: reply stream ends inside a frame although the system is quiescent", kinds())
		return
	}
	per, prob := splitBin(st.Pipe, frames)
	if prob != "" {
		e.violate(i, "attribution", class, "pipeline [%s]: %s", kinds(), prob)
		return
	}
	for oi, op := range st.Pipe {
		if op.Kind == "stats" {
			// key/value packets followed by an empty terminating packet, all echoing the opaque
			fs := per[oi]
			if len(fs) < 1 || len(fs[len(fs)-1].Key) != 0 || len(fs[len(fs)-1].Value) != 0 {
				e.violate(i, "shape", class+"/stats", "pipeline [%s] request #%d stats: %d packets echo the opaque and the last one is not the empty terminator", kinds(), oi, len(fs))
				return
			}
			continue
		}
		if op.Kind == "quit" || op.Kind == "raw" {
			continue
		}
		var o Obs
		decodeBinFrames(&o, op, per[oi])
		finishObs(&o, false)
		if ps := disciplineOf(proto, op, o, len(per[oi]), exps[oi].hits, exps[oi].fail); len(ps) > 0 {
			e.violate(i, "discipline", class+"/"+op.Kind, "pipeline [%s] request #%d %s: %s", kinds(), oi, op, strings.Join(ps, "; "))
			return
		}
		if op.Kind == "noop" || op.Kind == "version" {
			continue
		}
		if m := compareOutcome(proto, op, o, exps[oi].ex); m != "" {
			e.violate(i, "content", class+"/"+op.Kind, "pipeline [%s] request #%d %s -> %s", kinds(), oi, op, m)
			return
		}
	}
}

// textExtra checks the shape of text replies that decodeTextFrames does not know.
func (e *seqEnv) textExtra(op wire.Op, fs []wire.TextFrame) string {
	switch op.Kind {
	case "version":
		if len(fs) != 1 || !strings.HasPrefix(fs[0].Line, "VERSION ") {
			return fmt.Sprintf("version answered %v", fs)
		}
	case "stats":
		if len(fs) < 1 || fs[len(fs)-1].Line != "END" {
			return fmt.Sprintf("stats answered %v", fs)
		}
	case "noop":
		if len(fs) != 1 || fs[0].IsVal {
			return fmt.Sprintf("noop answered %v", fs)
		}
	case "raw":
		// a malformed or unknown command line must be answered by exactly one error line
		if len(fs) != 1 || !(strings.HasPrefix(fs[0].Line, "ERROR") || strings.HasPrefix(fs[0].Line, "CLIENT_ERROR") || strings.HasPrefix(fs[0].Line, "SERVER_ERROR")) {
			return fmt.Sprintf("bad command line answered %v", fs)
		}
	}
	return ""
}

func genC08(seed uint64, tier string) Plan {
	g := newGen(seed)
	p := Plan{Prop: "C08", Seed: seed, Cfg: g.cfgStd(), Seg: pick(g, []int{0, 2, 2, 1})}
	if g.p(1, 2) {
		p.Cfg.Locked = true
		p.Cfg.MultiReader = g.p(1, 2)
		p.Cfg.Concurrency = uint8(g.n(3))
	}
	p.Conns = g.conns(p.Cfg, 2)
	g.gete = p.Cfg.Shape == "l1only" && p.Cfg.L1 != "chunked"
	keys := g.keys(1 + g.n(3))
	now := int64(946684800)
	var opq uint32 = 1000
	npipes := 2 + g.n(6)
	for i := 0; i < npipes; i++ {
		c := g.n(len(p.Conns))
		proto := p.Conns[c].Proto
		n := 1 + g.n(6)
		var pipe []wire.Op
		for j := 0; j < n; j++ {
			switch {
			case g.p(1, 8):
				opq += 10
				o := wire.Op{Kind: pick(g, []string{"noop", "version", "stats"}), Opaque: opq}
				if proto == "text" {
					o.Opaque = 0
				}
				pipe = append(pipe, o)
			case proto == "text" && g.p(1, 8):
				// malformed / unknown command lines (sent without a data block)
				raw := pick(g, []string{"bogus\r\n", "set k abc 0 5\r\n", "set k 0 xyz 5\r\n", "set k 0 0 -1\r\n", "touch k notanumber\r\n", "delete\r\n", "get\r\n", "incr k 1\r\n", "set k 0 0\r\n"})
				pipe = append(pipe, wire.Op{Kind: "raw", Raw: []byte(raw)})
			default:
				pipe = append(pipe, g.dataOp(proto, keys, now, false, &opq))
			}
		}
		p.Steps = append(p.Steps, Step{Conn: c, Pipe: pipe})
	}
	return p
}

func execC08(t *testing.T, p Plan, src kernel.Source) Result {
	return execSeq(t, p, src, seqOpts{Discipline: true})
}

func init() {
	register(&Prop{
		ID: "C08", Gen: genC08, Exec: execC08,
		Nontrivial: func(p Plan, r Result) bool {
			for _, s := range p.Steps {
				if len(s.Pipe) > 1 {
					return true
				}
			}
			return false
		},
		Rule:      "seeded pipelines (1-6 requests per byte stream, several pipelines per connection) of all supported requests incl. failing ones, quiet sets, multi-key and quiet gets (in L1-only deployments with the direct handler also as GETE / GETEQ, rend's extension whose hits carry the expiry), noop/version/stats, unknown and malformed text command lines x deployment shape x locking wrapper x protocol x segmentation; non-trivial = some pipeline holds more than one request; distinct = distinct plan hash",
		Real:      realFullStack,
		Stub:      stubFullStack,
		RunsQuick: 5000, RunsThorough: 120000,
	})
}
