package props

import "rendsim/wire"

func (e *seqEnv) checkDiscipline(i int, proto string, op wire.Op, o Obs, reply []byte, class string) {
}
