package props

import (
	"bytes"
	"fmt"
	"reflect"
	"sort"
	"strings"
	"testing"

	"github.com/netflix/rend/common"
	"github.com/netflix/rend/handlers"
	"github.com/netflix/rend/orcas"
	"github.com/netflix/rend/protocol"

	"rendsim/kernel"
	"rendsim/stack"
	"rendsim/wire"
)

// C07 — wire decoding is faithful, exact and independent of packet boundaries.
//
// A recording orchestrator (the existing OrcaConst seam) notes every decoded
// request struct and then delegates to the real L1-only orchestrator, so the
// connection keeps working. The same pipeline is executed under several
// segmentations of the byte stream; under each of them the recorded sequence
// must equal the generator's intent field by field.

type recorded struct {
	Type common.RequestType
	Req  common.Request
}

type recOrca struct {
	orcas.Orca
	log *[]recorded
}

func cloneReq(r common.Request) common.Request {
	// requests reference parser buffers; copy what is compared later
	switch v := r.(type) {
	case common.SetRequest:
		v.Key = append([]byte(nil), v.Key...)
		v.Data = append([]byte(nil), v.Data...)
		return v
	case common.GetRequest:
		ks := make([][]byte, len(v.Keys))
		for i := range v.Keys {
			ks[i] = append([]byte(nil), v.Keys[i]...)
		}
		v.Keys = ks
		v.Opaques = append([]uint32(nil), v.Opaques...)
		v.Quiet = append([]bool(nil), v.Quiet...)
		return v
	case common.DeleteRequest:
		v.Key = append([]byte(nil), v.Key...)
		return v
	case common.TouchRequest:
		v.Key = append([]byte(nil), v.Key...)
		return v
	case common.GATRequest:
		v.Key = append([]byte(nil), v.Key...)
		return v
	}
	return r
}

func (o recOrca) rec(t common.RequestType, r common.Request) {
	*o.log = append(*o.log, recorded{t, cloneReq(r)})
}

func (o recOrca) Set(r common.SetRequest) error { o.rec(common.RequestSet, r); return o.Orca.Set(r) }
func (o recOrca) Add(r common.SetRequest) error { o.rec(common.RequestAdd, r); return o.Orca.Add(r) }
func (o recOrca) Replace(r common.SetRequest) error {
	o.rec(common.RequestReplace, r)
	return o.Orca.Replace(r)
}
func (o recOrca) Append(r common.SetRequest) error {
	o.rec(common.RequestAppend, r)
	return o.Orca.Append(r)
}
func (o recOrca) Prepend(r common.SetRequest) error {
	o.rec(common.RequestPrepend, r)
	return o.Orca.Prepend(r)
}
func (o recOrca) Delete(r common.DeleteRequest) error {
	o.rec(common.RequestDelete, r)
	return o.Orca.Delete(r)
}
func (o recOrca) Touch(r common.TouchRequest) error {
	o.rec(common.RequestTouch, r)
	return o.Orca.Touch(r)
}
func (o recOrca) Get(r common.GetRequest) error  { o.rec(common.RequestGet, r); return o.Orca.Get(r) }
func (o recOrca) GetE(r common.GetRequest) error { o.rec(common.RequestGetE, r); return o.Orca.GetE(r) }
func (o recOrca) Gat(r common.GATRequest) error  { o.rec(common.RequestGat, r); return o.Orca.Gat(r) }
func (o recOrca) Noop(r common.NoopRequest) error {
	o.rec(common.RequestNoop, r)
	return o.Orca.Noop(r)
}
func (o recOrca) Quit(r common.QuitRequest) error {
	o.rec(common.RequestQuit, r)
	return o.Orca.Quit(r)
}
func (o recOrca) Version(r common.VersionRequest) error {
	o.rec(common.RequestVersion, r)
	return o.Orca.Version(r)
}
func (o recOrca) Stat(r common.StatRequest) error {
	o.rec(common.RequestStat, r)
	return o.Orca.Stat(r)
}
func (o recOrca) Unknown(r common.Request) error {
	o.rec(common.RequestUnknown, r)
	return o.Orca.Unknown(r)
}

// intent is what the generator meant, in rend's request vocabulary.
func intentOf(proto string, op wire.Op) recorded {
	opq := op.Opaque
	if proto == "text" {
		opq = 0
	}
	switch op.Kind {
	case "set", "add", "replace", "append", "prepend":
		t := map[string]common.RequestType{"set": common.RequestSet, "add": common.RequestAdd, "replace": common.RequestReplace, "append": common.RequestAppend, "prepend": common.RequestPrepend}[op.Kind]
		r := common.SetRequest{Key: op.K(), Data: append([]byte{}, op.Data...), Flags: op.Flags, Exptime: op.TTL, Opaque: opq, Quiet: op.Quiet && proto == "bin"}
		if proto == "bin" && (op.Kind == "append" || op.Kind == "prepend") {
			r.Flags, r.Exptime = 0, 0
		}
		return recorded{t, r}
	case "delete":
		return recorded{common.RequestDelete, common.DeleteRequest{Key: op.K(), Opaque: opq}}
	case "touch":
		return recorded{common.RequestTouch, common.TouchRequest{Key: op.K(), Exptime: op.TTL, Opaque: opq}}
	case "gat":
		return recorded{common.RequestGat, common.GATRequest{Key: op.K(), Exptime: op.TTL, Opaque: opq}}
	case "get", "gete":
		ks := op.KS()
		r := common.GetRequest{Keys: ks, Opaques: make([]uint32, len(ks)), Quiet: make([]bool, len(ks))}
		if proto == "bin" {
			for i := range ks {
				r.Opaques[i] = op.Opaque + uint32(i)
				r.Quiet[i] = i < len(op.Quiets) && op.Quiets[i]
			}
			if op.Noop {
				r.NoopEnd = true
				r.NoopOpaque = op.Opaque + uint32(len(ks))
			}
		}
		t := common.RequestGet
		if op.Kind == "gete" {
			t = common.RequestGetE
		}
		return recorded{t, r}
	case "noop":
		return recorded{common.RequestNoop, common.NoopRequest{Opaque: opq}}
	case "version":
		return recorded{common.RequestVersion, common.VersionRequest{Opaque: opq}}
	case "stats":
		return recorded{common.RequestStat, common.StatRequest{Opaque: opq}}
	case "quit":
		return recorded{common.RequestQuit, common.QuitRequest{Opaque: opq, Quiet: op.Quiet && proto == "bin"}}
	}
	panic("intentOf: " + op.Kind)
}

func diffRecorded(want, got recorded) string {
	if want.Type != got.Type {
		return fmt.Sprintf("command type %d decoded, %d sent", got.Type, want.Type)
	}
	wv, gv := reflect.ValueOf(want.Req), reflect.ValueOf(got.Req)
	if wv.Type() != gv.Type() {
		return fmt.Sprintf("request struct %T decoded, %T expected", got.Req, want.Req)
	}
	for i := 0; i < wv.NumField(); i++ {
		name := wv.Type().Field(i).Name
		a, b := wv.Field(i).Interface(), gv.Field(i).Interface()
		eq := reflect.DeepEqual(a, b)
		if ab, ok := a.([]byte); ok {
			eq = bytes.Equal(ab, b.([]byte))
		}
		if aks, ok := a.([][]byte); ok {
			bks := b.([][]byte)
			eq = len(aks) == len(bks)
			for j := 0; eq && j < len(aks); j++ {
				eq = bytes.Equal(aks[j], bks[j])
			}
		}
		if !eq {
			return fmt.Sprintf("field %s: decoded %s, sent %s", name, shortAny(b), shortAny(a))
		}
	}
	return ""
}

func shortAny(x interface{}) string {
	s := fmt.Sprintf("%v", x)
	if b, ok := x.([]byte); ok {
		s = fmt.Sprintf("%q", b)
	}
	if len(s) > 80 {
		s = s[:80] + fmt.Sprintf("...(%d)", len(s))
	}
	return s
}

// boundaries returns the stream offsets at which the requests of the pipeline and
// their parts (header / extras / key / value) begin.
func boundaries(proto string, ops []wire.Op) (data []byte, cuts []int) {
	for _, op := range ops {
		start := len(data)
		enc := encode(proto, op)
		data = append(data, enc...)
		cuts = append(cuts, start)
		if proto == "bin" {
			off := start
			for off+24 <= len(data) {
				kl := int(data[off+2])<<8 | int(data[off+3])
				el := int(data[off+4])
				total := int(data[off+8])<<24 | int(data[off+9])<<16 | int(data[off+10])<<8 | int(data[off+11])
				cuts = append(cuts, off, off+24, off+24+el, off+24+el+kl)
				off += 24 + total
			}
		} else {
			if i := bytes.Index(enc, []byte("\r\n")); i >= 0 {
				cuts = append(cuts, start+i, start+i+1, start+i+2)
			}
			cuts = append(cuts, start+len(enc)-2, start+len(enc)-1)
		}
	}
	return data, cuts
}

func execC07(t *testing.T, p Plan, src kernel.Source) Result {
	type variant struct {
		name string
		seg  int
		off  int // for boundary cuts: offset added to every boundary
	}
	total := 0
	for _, s := range p.Steps {
		for _, op := range s.Pipe {
			total += len(encode(p.Conns[s.Conn].Proto, op))
		}
	}
	variants := []variant{{"whole", 0, 0}, {"drawn", 2, 0}, {"boundaries", 3, 0}, {"boundaries-1", 3, -1}, {"boundaries+1", 3, 1}}
	if total <= 3000 {
		variants = append(variants, variant{"bytewise", 4, 0})
	}
	var final Result
	for vi, v := range variants {
		var vsrc kernel.Source = kernel.ZeroSource{}
		if v.seg == 2 {
			vsrc = src // only the drawn segmentation consumes the schedule
		}
		var log []recorded
		wrap := &stack.Wrappers{Orca: func(port string, oc orcas.OrcaConst) orcas.OrcaConst {
			return func(l1, l2 handlers.Handler, res protocol.Responder) orcas.Orca {
				return recOrca{Orca: oc(l1, l2, res), log: &log}
			}
		}}
		res := inBubble(t, p.Seed, vsrc, func(w *kernel.World, res *Result) {
			w.SegMode = 0
			if v.seg == 2 {
				w.SegMode = 2
			}
			w.LogEvents = p.X["log"] != 0
			// decode buffers and headers come from shared pools: one handed back twice, or
			// used after it was handed back, is a decoded request that can change under its
			// reader's feet. The simulated pools notice both.
			w.Run.Poison = true
			stack.Build(w, p.Cfg, wrap)
			conns := make([]*kernel.ClientConn, len(p.Conns))
			for i, cs := range p.Conns {
				conns[i] = w.Connect(cs.Port)
				w.Settle()
			}
			for si, st := range p.Steps {
				if len(st.Pipe) == 0 {
					continue
				}
				proto := p.Conns[st.Conn].Proto
				cc := conns[st.Conn]
				data, cuts := boundaries(proto, st.Pipe)
				before := len(log)
				ok := true
				switch v.seg {
				case 3:
					cs := make([]int, 0, len(cuts))
					for _, c := range cuts {
						if c+v.off > 0 && c+v.off < len(data) {
							cs = append(cs, c+v.off)
						}
					}
					sort.Ints(cs)
					ok = w.SendCuts(cc, data, cs)
				case 4:
					cs := make([]int, 0, len(data))
					for i := 1; i < len(data); i++ {
						cs = append(cs, i)
					}
					ok = w.SendCuts(cc, data, cs)
				default:
					ok = w.Send(cc, data)
				}
				class := proto + "/" + v.name
				viol := func(rule, cl, format string, a ...interface{}) {
					if res.V == nil {
						res.V = &Violation{Prop: "C07", Rule: rule, Step: si, Class: rule + ":" + cl, Msg: fmt.Sprintf("segmentation %q: ", v.name) + fmt.Sprintf(format, a...)}
					}
				}
				if !ok {
					viol("no_quiescence", class, "the system did not become quiescent")
					return
				}
				got := log[before:]
				for oi, op := range st.Pipe {
					want := intentOf(proto, op)
					if oi >= len(got) {
						viol("missing", class, "request #%d of the pipeline (%s) was never handed to the orchestrator (%d of %d decoded; connection closed by rend: %v)", oi, op, len(got), len(st.Pipe), cc.C.ClosedByRend())
						return
					}
					if d := diffRecorded(want, got[oi]); d != "" {
						viol("decode", proto+"/"+op.Kind, "request #%d (%s): %s", oi, op, d)
						return
					}
				}
				if len(got) > len(st.Pipe) {
					viol("extra", class, "%d requests decoded from a pipeline of %d (first extra: type %d)", len(got), len(st.Pipe), got[len(st.Pipe)].Type)
					return
				}
				if n := cc.C.Undelivered(); n != 0 {
					viol("unread", class, "%d bytes of the stream were left unread", n)
					return
				}
				if cc.C.ClosedByRend() && st.Pipe[len(st.Pipe)-1].Kind != "quit" {
					viol("closed", class, "rend closed the connection after a well-formed pipeline")
					return
				}
				cc.Consume(len(cc.Unread()))
				if faults := w.Run.TakeFaults(); len(faults) > 0 {
					viol("pool_misuse", class, "while decoding %s rend misused a shared pool of decode objects: %s", describePipe(st.Pipe), strings.Join(faults, "; "))
					return
				}
			}
		})
		if vi == 1 {
			final.Trace, final.SchedHash = res.Trace, res.SchedHash
		}
		final.KSteps += res.KSteps
		if res.Infra != "" {
			final.Infra = res.Infra
			return final
		}
		if res.V != nil {
			final.V = res.V
			final.Log = res.Log
			return final
		}
	}
	return final
}

var textKeyChars = "abcdefghijklmnopqrstuvwxyzABCXYZ0123456789_-.:/!#$%&'()*+,;<=>?@[]^`{|}~\"\\"

func (g *gen) textKey() string {
	n := pick(g, []int{1, 2, 3, 8, 30, 249, 250})
	if g.p(1, 3) {
		n = 1 + g.n(250)
	}
	b := make([]byte, n)
	for i := range b {
		b[i] = textKeyChars[g.n(len(textKeyChars))]
	}
	return string(b)
}

func (g *gen) binKey() []byte {
	n := pick(g, []int{1, 2, 3, 8, 30, 249, 250})
	if g.p(1, 3) {
		n = 1 + g.n(250)
	}
	b := make([]byte, n)
	for i := range b {
		switch g.n(6) {
		case 0:
			b[i] = pick(g, []byte{0, '\r', '\n', ' ', 0x80, 0x81, 0xff})
		default:
			b[i] = byte(g.n(256))
		}
	}
	return b
}

func (g *gen) u32() uint32 {
	return pick(g, []uint32{0, 1, 1 << 31, 0xffffffff, 2592000, 2592001, g.r.Uint32(), g.r.Uint32()})
}

func (g *gen) blob() []byte {
	n := pick(g, []int{0, 1, 2, 7, 100, 1000, 4095, 4096, 4097, 20000, 65536})
	if g.p(1, 3) {
		n = g.n(3000)
	}
	b := make([]byte, n)
	for i := range b {
		switch g.n(8) {
		case 0:
			b[i] = pick(g, []byte{'\r', '\n', 0x80, 0x81, 0, ' '})
		default:
			b[i] = byte(g.n(256))
		}
	}
	return b
}

func genC07(seed uint64, tier string) Plan {
	g := newGen(seed)
	p := Plan{Prop: "C07", Seed: seed, Cfg: stack.Cfg{Shape: "l1only", L1: "std", GetEAbsolute: true}}
	nconn := 1 + g.n(2)
	for i := 0; i < nconn; i++ {
		p.Conns = append(p.Conns, ConnSpec{Port: "main", Proto: pick(g, []string{"text", "bin"})})
	}
	npipes := 1 + g.n(3)
	var opq uint32 = g.r.Uint32() &^ 0xff
	for i := 0; i < npipes; i++ {
		c := g.n(nconn)
		proto := p.Conns[c].Proto
		n := 1 + g.n(8)
		if g.p(1, 6) {
			n = 1 + g.n(20)
		}
		var pipe []wire.Op
		for j := 0; j < n; j++ {
			opq += 16
			op := wire.Op{Opaque: opq}
			if g.p(1, 5) {
				op.Opaque = g.u32()
			}
			kinds := []string{"set", "add", "replace", "append", "prepend", "delete", "touch", "get", "mget", "noop", "version", "stats", "bigmget"}
			if proto == "bin" {
				kinds = append(kinds, "gat", "qget", "qget", "gete", "setq")
			}
			k := pick(g, kinds)
			setKey := func() {
				if proto == "bin" {
					op.KeyB = g.binKey()
				} else {
					op.Key = g.textKey()
				}
			}
			addKeys := func(n int, allQuiet bool) {
				for x := 0; x < n; x++ {
					if proto == "bin" {
						op.KeysB = append(op.KeysB, g.binKey())
					} else {
						op.Keys = append(op.Keys, g.textKey())
					}
					op.Quiets = append(op.Quiets, proto == "bin" && (allQuiet || x < n-1))
				}
			}
			switch k {
			case "set", "add", "replace", "append", "prepend":
				op.Kind = k
				setKey()
				op.Data = g.blob()
				op.Flags, op.TTL = g.u32(), g.u32()
			case "setq":
				op.Kind = pick(g, []string{"set", "add", "replace", "append", "prepend"})
				op.Quiet = true
				setKey()
				op.Data = g.blob()
				op.Flags, op.TTL = g.u32(), g.u32()
			case "delete":
				op.Kind = k
				setKey()
			case "touch", "gat":
				op.Kind = k
				setKey()
				op.TTL = g.u32()
			case "get":
				op.Kind = "get"
				addKeys(1, false)
			case "mget":
				op.Kind = "get"
				addKeys(2+g.n(5), false)
			case "bigmget":
				// many / long keys: a text command line well beyond any 4 KiB buffer
				op.Kind = "get"
				addKeys(pick(g, []int{17, 20, 40, 120}), false)
			case "qget":
				op.Kind = "get"
				addKeys(1+g.n(5), true)
				op.Noop = true
			case "gete":
				op.Kind = "gete"
				if g.p(1, 2) {
					addKeys(1+g.n(3), true)
					op.Noop = true
				} else {
					addKeys(1+g.n(3), false)
				}
			default:
				op.Kind = k
			}
			// a text get line must fit bufio's line buffering? it does not have to: keep lines as generated
			pipe = append(pipe, op)
		}
		p.Steps = append(p.Steps, Step{Conn: c, Pipe: pipe})
	}
	return p
}

func init() {
	register(&Prop{
		ID: "C07", Gen: genC07, Exec: execC07,
		Nontrivial: func(p Plan, r Result) bool {
			for _, s := range p.Steps {
				if len(s.Pipe) > 1 {
					return true
				}
			}
			return false
		},
		Rule:      "seeded pipelines (1-20 requests) of every supported command in both protocols: binary keys 1..250 of arbitrary bytes (NUL, CR, LF, space, 0x80, 0xff), printable text keys 1..250, data 0..64 KiB with CR/LF/0x80, flags/TTL/opaque from {0, 1, 2^31, 2^32-1, 30-day boundary, random}, quiet sets, quiet-get batches closed by get or noop, gete; each pipeline is executed under 5-6 segmentations of its byte stream (whole, kernel-drawn, cut exactly at every request/header/extras/key/value boundary and at boundary-1 and +1, bytewise when <= 3000 bytes); the schedule here is transport delivery. Oracle: request structs recorded by a recording orchestrator (OrcaConst seam, delegating to the real L1-only orchestrator) equal the generator's intent field by field, no request missing or extra, no byte left unread. Non-trivial = a pipeline with more than one request; distinct = distinct plan hash. The shared pools the decoder takes headers and buffers from are the simulated ones that poison on Put and report a double Put or a use after Put",
		Real:      realFullStack,
		Stub:      append(append([]string{}, stubFullStack...), "recording orchestrator decorator (records, then delegates to the real one)"),
		RunsQuick: 1500, RunsThorough: 40000,
	})
}
