package props

import (
	"fmt"
	"runtime"
	"sync"
	"testing"
	"time"

	"github.com/netflix/rend/common"
	"github.com/netflix/rend/handlers/inmem"

	"rendsim/kernel"
	"rendsim/model"
	"rendsim/shadow/hub"
	"rendsim/wire"
)

// C17 — the in-memory backend behaves like the reference map and is safe to share.
//
// seq:        sequential differential against the reference map (simulated clock).
// interleave: 2-32 tasks share the singleton; its RWMutex is sim-owned, every
//             Lock/RLock parks and is granted by the kernel; oracle = per-key
//             linearizability (porcupine) + lock discipline (a mutating command
//             must run under the write lock).
// parallel:   auxiliary, outside the technique family: real goroutines, real
//             mutex, no kernel. Mixed reads of missing keys and writes; the Go
//             runtime's concurrent-map-access detector ends the process if the map
//             is written under a read lock, which the driver reports as a crash.

var inmemRun int

func inmemPrefix(seed uint64) string {
	inmemRun++
	return fmt.Sprintf("r%d-%d-", seed%100000, inmemRun)
}

func prefixOp(op wire.Op, pre string) wire.Op {
	if op.Key != "" {
		op.Key = pre + op.Key
	}
	if len(op.Keys) > 0 {
		ks := make([]string, len(op.Keys))
		for i, k := range op.Keys {
			ks[i] = pre + k
		}
		op.Keys = ks
	}
	return op
}

func execC17(t *testing.T, p Plan, src kernel.Source) Result {
	switch p.Mode {
	case "parallel":
		return execC17Parallel(p)
	case "interleave":
		return execC17Interleave(t, p, src)
	}
	return inBubble(t, p.Seed, src, func(w *kernel.World, res *Result) {
		h, _ := inmem.New()
		ref := model.NewStore(w.Now)
		pre := inmemPrefix(p.Seed)
		for i, st := range p.Steps {
			if st.Advance != 0 {
				w.Advance(secs(st.Advance))
				continue
			}
			if st.Op == nil {
				continue
			}
			// guard band: inmem expires with '<', memcached with '<='; the boundary second is
			// not what the property is about
			for again := true; again; {
				again = false
				for _, e := range ref.M {
					if e.Deadline != 0 && e.Deadline == w.Now() {
						w.Advance(time.Second)
						again = true
					}
				}
			}
			op := prefixOp(*st.Op, pre)
			// the call runs on a goroutine of its own: a backend that blocks (it has no I/O to
			// wait for) is then a finding, not a stuck harness
			var r HRes
			done := make(chan struct{})
			go func() { r = hcall(h, op, false); close(done) }()
			w.Quiesce()
			select {
			case <-done:
			default:
				res.V = &Violation{Prop: "C17", Rule: "hang", Step: i, Class: "hang:" + op.Kind, Msg: fmt.Sprintf("%s (%d keys) never returned: the in-memory backend is blocked (and with it every other connection, it is shared)", op.Kind, len(op.Keys))}
				return
			}
			exp := applyModel(ref, op)
			if r.Panic != "" {
				res.V = &Violation{Prop: "C17", Rule: "panic", Step: i, Class: "panic:" + op.Kind, Msg: fmt.Sprintf("%s panicked: %s", op, r.Panic)}
				return
			}
			if m := compareH(op, r, exp); m != "" {
				res.V = &Violation{Prop: "C17", Rule: "result", Step: i, Class: "result:" + op.Kind, Msg: fmt.Sprintf("%s -> %s", st.Op, m)}
				return
			}
			res.States = append(res.States, hash64(op.Kind, fmt.Sprint(len(ref.LiveKeys())), errOutcome(r.Err)))
		}
	})
}

func execC17Interleave(t *testing.T, p Plan, src kernel.Source) Result {
	var hist []*HistOp
	var lockLog []hub.LockEvent
	res := inBubble(t, p.Seed, src, func(w *kernel.World, res *Result) {
		w.LogEvents = p.X["log"] != 0
		h0, _ := inmem.New()
		pre0 := inmemPrefix(p.Seed)
		// sequential prelude (not part of the history): entries whose lifetime has run out
		// but which are still in the map when the concurrent phase starts
		for _, st := range p.Steps {
			if st.Advance != 0 {
				w.Advance(secs(st.Advance))
				continue
			}
			if st.Op != nil {
				if r := hcall(h0, prefixOp(*st.Op, pre0), false); r.Err != nil || r.Panic != "" {
					res.Infra = fmt.Sprintf("prelude %s failed: %v", st.Op, r)
					return
				}
			}
		}
		w.Run.ManagePkgs = []string{"/handlers/inmem"}
		// a release is a scheduling point too: a command that drops and re-takes the lock
		// can then be overtaken in between
		w.Run.YieldAfterUnlock = true
		h, pre := h0, pre0
		type task struct {
			name string
			ops  []wire.Op
			next int
			busy bool
			cur  *HistOp
			res  HRes
			done chan struct{}
		}
		var tasks []*task
		for i, prog := range p.Progs {
			tk := &task{name: fmt.Sprintf("t%d", i)}
			for _, op := range prog {
				tk.ops = append(tk.ops, prefixOp(op, pre))
			}
			tasks = append(tasks, tk)
		}
		var stamp int64
		for {
			w.Quiesce()
			if w.Overrun {
				res.Infra = "step budget exhausted"
				return
			}
			for ti, tk := range tasks {
				if !tk.busy {
					continue
				}
				select {
				case <-tk.done:
					tk.busy = false
					stamp++
					tk.cur.Ret = stamp
					op := tk.cur.Op
					if tk.res.Panic != "" {
						res.V = &Violation{Prop: "C17", Rule: "panic", Class: "panic:" + op.Kind, Msg: fmt.Sprintf("t%d %s panicked: %s", ti, op, tk.res.Panic)}
						return
					}
					// express the handler result as an observation
					o := Obs{Status: errOutcome(tk.res.Err)}
					if op.Kind == "get" || op.Kind == "gat" {
						o.Status = "ok"
						o.Values = tk.res.Hits
						if op.Kind == "gat" && len(tk.res.Hits) == 0 {
							o.Status = "notfound"
						}
					}
					tk.cur.Obs = o
				default:
				}
			}
			evs := w.Internal()
			for _, tk := range tasks {
				tk := tk
				if tk.busy || tk.next >= len(tk.ops) {
					continue
				}
				evs = append(evs, kernel.Event{Label: "call " + tk.name, Owner: tk.name, Do: func() {
					op := tk.ops[tk.next]
					tk.next++
					tk.busy = true
					stamp++
					tk.cur = &HistOp{Conn: len(hist) % 64, Op: op, Call: stamp}
					hist = append(hist, tk.cur)
					tk.done = make(chan struct{})
					go func() {
						w.Run.NameGoroutine(tk.name + "#" + fmt.Sprint(tk.next-1) + ":" + op.Kind)
						tk.res = hcall(h, op, false)
						close(tk.done)
					}()
				}})
			}
			if len(evs) == 0 {
				for _, tk := range tasks {
					if tk.busy {
						res.V = &Violation{Prop: "C17", Rule: "hang", Class: "hang", Msg: fmt.Sprintf("%s %s never returned", tk.name, tk.cur.Op)}
						return
					}
				}
				break
			}
			evs[w.Ch.Choose(len(evs), "event")].Do()
		}
		lockLog = append(lockLog, w.Run.LockLog...)
	})
	if res.V != nil || res.Infra != "" {
		return res
	}
	// lock discipline: a mutating command must have taken the write lock
	for _, e := range lockLog {
		if e.Op != "rlock" {
			continue
		}
		// Who = "<task>#<idx>:<kind>"
		kind := e.Who
		for i := len(kind) - 1; i >= 0; i-- {
			if kind[i] == ':' {
				kind = kind[i+1:]
				break
			}
		}
		switch kind {
		case "get", "gete":
		default:
			res.V = &Violation{Prop: "C17", Rule: "write_under_read_lock", Class: "write_under_read_lock:" + kind, Msg: fmt.Sprintf("%s ran under the read lock only (%s)", kind, e.Who)}
			return res
		}
	}
	linTimeout = 2 * time.Second
	key, detail, unknown, bad := checkLinearizable(hist)
	linTimeout = 20 * time.Second
	if unknown > 0 {
		res.probe("porcupine_unknown")
	}
	if bad != "" {
		res.V = &Violation{Prop: "C17", Rule: "bad_result", Class: "bad_result", Msg: bad}
	} else if key != "" {
		res.V = &Violation{Prop: "C17", Rule: "not_linearizable", Class: "not_linearizable", Msg: fmt.Sprintf("history of key %q is not linearizable: %s", key, detail)}
	}
	res.probe("histories_checked")
	return res
}

// execC17Parallel is the auxiliary real-parallel stage (runtime monitoring, not
// simulation): no bubble, no kernel, the real sync.RWMutex.
func execC17Parallel(p Plan) Result {
	var res Result
	// this stage wants real parallelism; the simulation worker otherwise runs on one P
	defer runtime.GOMAXPROCS(runtime.GOMAXPROCS(8))
	h, _ := inmem.New()
	pre := inmemPrefix(p.Seed)
	n := int(p.X["goroutines"])
	iters := int(p.X["iters"])
	var wg sync.WaitGroup
	for g := 0; g < n; g++ {
		wg.Add(1)
		go func(g int) {
			defer wg.Done()
			for i := 0; i < iters; i++ {
				k := []byte(fmt.Sprintf("%sk%d", pre, (g*7+i)%13))
				switch (g + i) % 4 {
				case 0:
					h.Set(common.SetRequest{Key: k, Data: []byte("v"), Exptime: 0})
				case 3:
					h.Delete(common.DeleteRequest{Key: k})
				default:
					// reads, mostly of keys that are missing
					miss := []byte(fmt.Sprintf("%smissing%d", pre, i%5))
					rc, ec := h.Get(common.GetRequest{Keys: [][]byte{miss, k}, Opaques: []uint32{0, 1}, Quiet: []bool{false, false}})
					for range rc {
					}
					for range ec {
					}
				}
			}
		}(g)
	}
	wg.Wait()
	res.probe("parallel_stage_runs")
	return res
}

func genC17(seed uint64, tier string) Plan {
	g := newGen(seed)
	switch g.n(20) {
	case 0:
		return Plan{Prop: "C17", Seed: seed, Mode: "parallel", X: map[string]int64{"goroutines": int64(2 + g.n(31)), "iters": 1500}}
	case 1, 2, 3, 4, 5, 6, 7, 8:
		p := Plan{Prop: "C17", Seed: seed, Mode: "interleave"}
		keys := keyAlphabet[:1+g.n(2)]
		ntasks := pick(g, []int{2, 2, 3, 4, 8, 8, 32})
		maxOps := 3
		if ntasks == 32 {
			// all tasks overlap: keep the history small enough for the linearizability search
			maxOps = 1
			keys = keyAlphabet[:4]
		}
		var opq uint32 = 10
		for i := 0; i < ntasks; i++ {
			var prog []wire.Op
			for j := 0; j < 1+g.n(maxOps); j++ {
				op := g.concOp("bin", keys, &opq)
				op.Noop = false
				prog = append(prog, op)
			}
			p.Progs = append(p.Progs, prog)
		}
		if g.p(1, 2) {
			// the keys start as expired leftovers: stored with a short lifetime, then the
			// clock moves well past it
			for _, k := range keys {
				op := wire.Op{Kind: "set", Key: k, Data: g.value(4), TTL: uint32(1 + g.n(2)), Opaque: 5}
				p.Steps = append(p.Steps, Step{Op: &op})
			}
			p.Steps = append(p.Steps, Step{Advance: int64(5 + g.n(5))})
		}
		return p
	}
	p := Plan{Prop: "C17", Seed: seed}
	keys := keyAlphabet[:1+g.n(3)]
	now := int64(946684800)
	var opq uint32 = 10
	for i := 0; i < 4+g.n(25); i++ {
		if g.p(1, 6) {
			adv := pick(g, []int64{1, 2, 3, 7})
			p.Steps = append(p.Steps, Step{Advance: adv})
			now += adv
			continue
		}
		op := g.dataOp("bin", keys, now, false, &opq)
		op.Quiet = false
		if g.p(1, 40) {
			// a get of very many keys (sizes around powers of two): hits, misses and repeats
			n := pick(g, []int{255, 256, 1023, 1024, 1025, 2048, 4097})
			op = wire.Op{Kind: "get", Opaque: opq}
			for j := 0; j < n; j++ {
				k := pick(g, keys)
				if j%3 == 0 {
					k = fmt.Sprintf("absent-%d", j%17)
				}
				op.Keys = append(op.Keys, k)
				op.Quiets = append(op.Quiets, false)
			}
			opq += uint32(n)
		}
		p.Steps = append(p.Steps, Step{Op: &op})
	}
	return p
}

func init() {
	register(&Prop{
		ID: "C17", Gen: genC17, Exec: execC17,
		Nontrivial: func(p Plan, r Result) bool { return p.Mode != "" || nontrivialSeq(p, r) },
		Rule:       "55% of the runs: sequential command sequences (all commands incl. multi-key gets - one command in forty a get of 255-4097 keys - and gat, 1-3 colliding keys, TTL 0 or 1-5 s, clock steps with the boundary second skipped) on the real inmem singleton (unique key prefix per run) compared with the reference map. 40%: 2-32 tasks with 1-3 commands each (with lifetimes of 0 or 50-3000 s) on 1-2 keys, in half of these runs starting from keys that were stored with a 1-2 s lifetime and have expired but are still in the map; the singleton's RWMutex is sim-owned, every Lock/RLock parks and the kernel grants them; oracle = porcupine linearizability per key plus lock discipline from the lock log (a mutating command must hold the write lock). 5%: auxiliary real-parallel stage outside the technique family (runtime monitoring): 2-32 real goroutines mix reads of missing keys with sets and deletes on the real mutex; the Go runtime's concurrent map access detector terminates the process if the map is written under the read lock, which the driver reports as a crash in repository code. Non-trivial = a key written earlier is addressed again / any concurrent mode; distinct = distinct plan hash",
		Real:       []string{"handlers/inmem (singleton map + RWMutex)"},
		Stub:       []string{"clock (testing/synctest)", "sync.RWMutex of the singleton (sim-owned in interleave mode, real in the parallel stage)", "caller tasks"},
		Assume:     []string{"the parallel stage relies on the Go runtime's built-in concurrent map access detection, which is probabilistic; it is auxiliary evidence"},
		RaceTest:   "TestRaceInmem",
		RunsQuick:  4000, RunsThorough: 100000,
	})
}
