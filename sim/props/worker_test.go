package props

import (
	"encoding/json"
	"fmt"
	"os"
	"runtime"
	"sort"
	"strconv"
	"strings"
	"testing"
	"time"

	"rendsim/kernel"
)

// ReplayFile is the on-disk form of a failing (or any) case.
type ReplayFile struct {
	Property  string          `json:"property"`
	Kind      string          `json:"kind"` // violation | crash
	Violation *Violation      `json:"violation,omitempty"`
	Plan      Plan            `json:"plan"`
	Trace     []kernel.Choice `json:"trace"`
	BaseSeed  uint64          `json:"base_seed"`
	RunIndex  int             `json:"run_index"`
	Tier      string          `json:"tier"`
	Shrunk    bool            `json:"shrunk"`
	ShrinkExe int             `json:"shrink_executions"`
	Original  *ReplaySummary  `json:"original,omitempty"`
	Toolchain string          `json:"toolchain"`
	Crash     string          `json:"crash,omitempty"`
}

type ReplaySummary struct {
	Steps     int    `json:"plan_steps"`
	Faults    int    `json:"faults"`
	Decisions int    `json:"decisions"`
	Msg       string `json:"message"`
}

// WorkerOut is what one worker process reports to the driver.
type WorkerOut struct {
	Prop        string            `json:"prop"`
	From, To    int               `json:"-"`
	Runs        int               `json:"runs"`
	KSteps      int64             `json:"ksteps"`
	SimMs       int64             `json:"sim_ms"`
	Decisions   int64             `json:"decisions"`
	PlanHashes  []uint64          `json:"plan_hashes"`  // non-trivial plans
	SchedHashes []uint64          `json:"sched_hashes"` // plan ⊕ schedule
	StateHashes []uint64          `json:"state_hashes"`
	Probes      map[string]int    `json:"probes"`
	Fired       map[string]int    `json:"fired"`
	Violations  []WorkerViolation `json:"violations"`
	Infra       []string          `json:"infra"`
	Samples     []json.RawMessage `json:"samples"`
	WallS       float64           `json:"wall_s"`
	Exhaustive  bool              `json:"exhaustive"`
	Digests     []string          `json:"digests,omitempty"`
	Next        int               `json:"next"` // first run index not covered by this (partial) result
}

type WorkerViolation struct {
	Class  string `json:"class"`
	Rule   string `json:"rule"`
	Msg    string `json:"msg"`
	Replay string `json:"replay"`
	Index  int    `json:"index"`
}

func envInt(name string, def int) int {
	if s := os.Getenv(name); s != "" {
		if v, err := strconv.Atoi(s); err == nil {
			return v
		}
	}
	return def
}

func envU64(name string, def uint64) uint64 {
	if s := os.Getenv(name); s != "" {
		if v, err := strconv.ParseUint(s, 10, 64); err == nil {
			return v
		}
		if v, err := strconv.ParseInt(s, 10, 64); err == nil {
			return uint64(v)
		}
	}
	return def
}

// RunSeed derives the seed of run i of a property from the base seed.
func RunSeed(base uint64, prop string, i int) uint64 {
	return kernel.SplitMix(base*0x100000001b3 ^ hash64(prop) + uint64(i)*0x9e3779b97f4a7c15)
}

const stateCap = 60000

// TestWorker executes runs [VERIF_FROM, VERIF_TO) of property VERIF_PROP.
// singleP makes the process run on one P unless GOMAXPROCS is given explicitly (the
// determinism self-test does that). The kernel decides which goroutine is released at
// every seam, but one kernel event can wake several goroutines (a batched reply fans out
// to all waiting connections), which then run until each blocks again. On the unchanged
// tree they touch disjoint state, so it does not matter how they overlap; a change that
// makes them share something unsynchronised turns that overlap into a real data race,
// and a violation found through it would not replay. On one P such goroutines run one
// after the other in the run queue's order. Workers are separate processes, one per
// core, so nothing is lost in throughput.
func singleP() {
	if os.Getenv("GOMAXPROCS") == "" {
		runtime.GOMAXPROCS(1)
	}
}

func TestWorker(t *testing.T) {
	singleP()
	prop := os.Getenv("VERIF_PROP")
	if prop == "" {
		t.Skip("no VERIF_PROP")
	}
	pr := registry[prop]
	if pr == nil {
		fmt.Fprintln(os.Stderr, "unknown property", prop)
		os.Exit(2)
	}
	tier := os.Getenv("VERIF_TIER")
	if tier == "" {
		tier = "quick"
	}
	base := envU64("VERIF_SEED", 1)
	from, to := envInt("VERIF_FROM", 0), envInt("VERIF_TO", 10)
	outPath := os.Getenv("VERIF_OUT")
	replayDir := os.Getenv("VERIF_REPLAY_DIR")
	if replayDir == "" {
		replayDir = "/verif/replays"
	}
	enumerate := os.Getenv("VERIF_ENUM") == "1"
	digest := os.Getenv("VERIF_DIGEST") == "1"
	start := time.Now()
	out := WorkerOut{Prop: prop, Probes: map[string]int{}, Fired: map[string]int{}}
	states := map[uint64]struct{}{}
	scheds := map[uint64]struct{}{}
	plans := map[uint64]struct{}{}
	seenClass := map[string]bool{}
	var enumPlans []Plan
	if enumerate {
		enumPlans = pr.Enumerate(tier)
		if to > len(enumPlans) {
			to = len(enumPlans)
		}
		out.Exhaustive = true
	}
	// the watchdog watches the kernel's step counter: it starts once the plans exist
	// (building a large enumeration takes its time on a loaded machine)
	if outPath != "" {
		go watchdog(outPath, envInt("VERIF_WATCHDOG_S", 60))
	}
	skip := map[int]bool{}
	for _, f := range strings.Split(os.Getenv("VERIF_SKIP"), ",") {
		if v, err := strconv.Atoi(f); err == nil {
			skip[v] = true
		}
	}
	flush := func(next int, final bool) {
		out.PlanHashes, out.SchedHashes, out.StateHashes = out.PlanHashes[:0], out.SchedHashes[:0], out.StateHashes[:0]
		for h := range plans {
			out.PlanHashes = append(out.PlanHashes, h)
		}
		for h := range scheds {
			out.SchedHashes = append(out.SchedHashes, h)
		}
		for h := range states {
			out.StateHashes = append(out.StateHashes, h)
		}
		out.WallS = time.Since(start).Seconds()
		out.Next = next
		if outPath == "" {
			return
		}
		js, _ := json.Marshal(out)
		name := outPath + ".partial"
		if final {
			name = outPath
		}
		tmp := name + ".tmp"
		if err := os.WriteFile(tmp, js, 0o644); err != nil {
			fmt.Fprintln(os.Stderr, err)
			os.Exit(2)
		}
		os.Rename(tmp, name)
	}
	for i := from; i < to; i++ {
		if skip[i] {
			continue
		}
		if (i-from)%64 == 63 {
			flush(i, false)
		}
		var plan Plan
		var seed uint64
		if enumerate {
			plan = enumPlans[i]
			seed = plan.Seed
		} else {
			seed = RunSeed(base, prop, i)
			plan = pr.Gen(seed, tier)
		}
		if outPath != "" {
			os.WriteFile(outPath+".intent", []byte(fmt.Sprintf("%d %d\n", i, seed)), 0o644)
		}
		var src kernel.Source = kernel.NewRandSource(seed ^ 0xabcdef)
		if enumerate {
			src = kernel.ZeroSource{}
		}
		if digest {
			if plan.X == nil {
				plan.X = map[string]int64{}
			}
			plan.X["log"] = 1
		}
		if dl := os.Getenv("VERIF_DUMPLOG"); dl != "" {
			if plan.X == nil {
				plan.X = map[string]int64{}
			}
			plan.X["log"] = 1
			r := pr.Exec(t, plan, src)
			pj, _ := json.MarshalIndent(plan, "", " ")
			os.WriteFile(dl, []byte(string(pj)+"\n"+strings.Join(r.Log, "\n")+"\n"), 0o644)
			continue
		}
		res := pr.Exec(t, plan, src)
		if digest {
			vs := ""
			if res.V != nil {
				vs = res.V.Class + "@" + strconv.Itoa(res.V.Step)
			}
			out.Digests = append(out.Digests, fmt.Sprintf("%d:%x:%x:%s:%s", i, hash64(res.Log...), res.SchedHash, vs, res.Infra))
			delete(plan.X, "log")
		}
		out.Runs++
		out.KSteps += int64(res.KSteps)
		out.SimMs += res.SimMs
		out.Decisions += int64(len(res.Trace))
		for k, v := range res.Probes {
			out.Probes[k] += v
		}
		for k, v := range res.Fired {
			out.Fired[k] += v
		}
		pj, _ := json.Marshal(plan)
		ph := hash64(string(pj))
		if pr.Nontrivial == nil || pr.Nontrivial(plan, res) {
			plans[ph] = struct{}{}
		}
		if len(scheds) < stateCap {
			scheds[ph^res.SchedHash] = struct{}{}
		}
		for _, s := range res.States {
			if len(states) < stateCap {
				states[s] = struct{}{}
			}
		}
		if len(out.Samples) < 2 && (pr.Nontrivial == nil || pr.Nontrivial(plan, res)) {
			out.Samples = append(out.Samples, pj)
		}
		if res.Infra != "" {
			out.Infra = append(out.Infra, fmt.Sprintf("run %d seed %d: %s", i, seed, res.Infra))
			if len(out.Infra) > 5 {
				break
			}
			continue
		}
		if res.V != nil && !seenClass[res.V.Class] && !digest {
			seenClass[res.V.Class] = true
			rf := ReplayFile{Property: prop, Kind: "violation", BaseSeed: base, RunIndex: i, Tier: tier, Toolchain: runtime.Version(),
				Original: &ReplaySummary{Steps: len(plan.Steps), Faults: len(plan.Faults), Decisions: len(res.Trace), Msg: res.V.Msg}}
			sp, strace, sv, execs := shrink(t, pr, plan, res.Trace, res.V, 250)
			// canonical re-execution of the minimised case: its full trace is what is stored
			fin := pr.Exec(t, sp, &kernel.TraceSource{T: strace})
			if fin.V != nil && fin.V.Class == res.V.Class {
				rf.Plan, rf.Trace, rf.Violation, rf.Shrunk, rf.ShrinkExe = sp, fin.Trace, fin.V, true, execs
			} else {
				_ = sv
				rf.Plan, rf.Trace, rf.Violation = plan, res.Trace, res.V
			}
			name := fmt.Sprintf("%s/%s-%s-%d-%d.json", replayDir, prop, tier, base, i)
			js, _ := json.MarshalIndent(rf, "", " ")
			os.MkdirAll(replayDir, 0o755)
			os.WriteFile(name, js, 0o644)
			out.Violations = append(out.Violations, WorkerViolation{Class: rf.Violation.Class, Rule: rf.Violation.Rule, Msg: rf.Violation.Msg, Replay: name, Index: i})
		}
	}
	flush(to, true)
	if outPath != "" {
		os.Remove(outPath + ".intent")
		os.Remove(outPath + ".partial")
	} else {
		js, _ := json.MarshalIndent(out.Violations, "", " ")
		fmt.Printf("runs=%d ksteps=%d violations=%s infra=%v\n", out.Runs, out.KSteps, js, out.Infra)
	}
}

// TestReplay re-executes a replay file strictly: every decision must present the
// recorded number of alternatives and the same violation must be reported at the same step.
func TestReplay(t *testing.T) {
	singleP()
	path := os.Getenv("VERIF_REPLAY")
	if path == "" {
		t.Skip("no VERIF_REPLAY")
	}
	data, err := os.ReadFile(path)
	if err != nil {
		fmt.Fprintln(os.Stderr, err)
		os.Exit(2)
	}
	var rf ReplayFile
	if err := json.Unmarshal(data, &rf); err != nil {
		fmt.Fprintln(os.Stderr, err)
		os.Exit(2)
	}
	pr := registry[rf.Property]
	if pr == nil {
		fmt.Fprintln(os.Stderr, "unknown property", rf.Property)
		os.Exit(2)
	}
	if os.Getenv("VERIF_REPLAY_LOG") == "1" {
		if rf.Plan.X == nil {
			rf.Plan.X = map[string]int64{}
		}
		rf.Plan.X["log"] = 1
	}
	src := &kernel.TraceSource{T: rf.Trace, Strict: true}
	res := pr.Exec(t, rf.Plan, src)
	for _, l := range res.Log {
		fmt.Println("  ", l)
	}
	status := map[string]interface{}{"property": rf.Property}
	code := 0
	switch {
	case res.Infra != "":
		status["result"] = "INFRA"
		status["detail"] = res.Infra
		code = 2
	case res.Diverged != "":
		status["result"] = "REPLAY-DIVERGED"
		status["detail"] = res.Diverged
		code = 2
	case res.V == nil:
		status["result"] = "NOT-REPRODUCED"
		code = 3
	case rf.Violation != nil && (res.V.Class != rf.Violation.Class || res.V.Step != rf.Violation.Step):
		status["result"] = "DIFFERENT-VIOLATION"
		status["violation"] = res.V
		code = 3
	default:
		status["result"] = "REPRODUCED"
		status["violation"] = res.V
	}
	js, _ := json.Marshal(status)
	fmt.Println("REPLAY " + string(js))
	if p := os.Getenv("VERIF_OUT"); p != "" {
		os.WriteFile(p, js, 0o644)
	}
	if code != 0 {
		os.Exit(code)
	}
}

// TestMeta writes the property's metadata for the driver.
func TestMeta(t *testing.T) {
	prop := os.Getenv("VERIF_PROP")
	if prop == "" {
		t.Skip("no VERIF_PROP")
	}
	pr := registry[prop]
	if pr == nil {
		fmt.Fprintln(os.Stderr, "unknown property", prop)
		os.Exit(2)
	}
	m := map[string]interface{}{"id": pr.ID, "level": pr.Level, "rule": pr.Rule, "real": pr.Real, "stub": pr.Stub, "assume": pr.Assume,
		"runs_quick": pr.RunsQuick, "runs_thorough": pr.RunsThorough, "chunk": pr.Chunk, "fault_kinds": pr.FaultKinds, "race_test": pr.RaceTest}
	if pr.Level == "" {
		m["level"] = "exploration"
	}
	if pr.Enumerate != nil {
		m["enum_quick"] = len(pr.Enumerate("quick"))
		m["enum_thorough"] = len(pr.Enumerate("thorough"))
	}
	js, _ := json.Marshal(m)
	if err := os.WriteFile(os.Getenv("VERIF_OUT"), js, 0o644); err != nil {
		fmt.Fprintln(os.Stderr, err)
		os.Exit(2)
	}
}

// watchdog runs outside any bubble. When the kernel has made no step for limit
// seconds it samples all goroutine stacks twice, five seconds apart. If both
// samples show a goroutine running (not blocked) in repository code, that is a
// spin: the samples are written to <out>.spin and the process exits with status 3
// (the driver re-runs the seed in a fresh process to confirm). Otherwise the
// stall is simulator trouble: <out>.stall, exit status 4.
func watchdog(outPath string, limit int) {
	last := kernel.Progress.Load()
	stale := 0
	for {
		time.Sleep(time.Second)
		cur := kernel.Progress.Load()
		if cur != last {
			last, stale = cur, 0
			continue
		}
		stale++
		if stale < limit {
			continue
		}
		s1 := spinning(allStacks())
		time.Sleep(5 * time.Second)
		if kernel.Progress.Load() != last {
			stale = 0
			continue
		}
		dump := allStacks()
		s2 := spinning(dump)
		var common []string
		for fn := range s1 {
			if s2[fn] && !strings.Contains(fn, "server.(*DefaultServer).Loop") && !strings.Contains(fn, "ListenAndServe") {
				common = append(common, fn)
			}
		}
		if len(common) > 0 {
			sort.Strings(common)
			os.WriteFile(outPath+".spin", []byte(common[0]+"\n"+dump), 0o644)
			os.Exit(3)
		}
		os.WriteFile(outPath+".stall", []byte(dump), 0o644)
		os.Exit(4)
	}
}

func allStacks() string {
	buf := make([]byte, 8<<20)
	return string(buf[:runtime.Stack(buf, true)])
}

// spinning returns every repository function on the stack of goroutines that are
// running or runnable (i.e. not blocked), mapped to its depth (0 = innermost).
func spinning(dump string) map[string]bool {
	out := map[string]bool{}
	for _, g := range strings.Split(dump, "\n\n") {
		head, _, _ := strings.Cut(g, "\n")
		if !strings.Contains(head, "[running") && !strings.Contains(head, "[runnable") {
			continue
		}
		for _, l := range strings.Split(g, "\n") {
			if strings.HasPrefix(l, "github.com/netflix/rend/") {
				fn := l
				if i := strings.LastIndex(fn, "("); i > 0 {
					fn = fn[:i]
				}
				out[fn] = true
			}
		}
	}
	return out
}
