package props

import (
	"fmt"
	"testing"

	"rendsim/kernel"
	"rendsim/stack"
)

// C02 — L1 is only a cache. Fault: any subset of L1's entries is discarded at any
// point between commands. Oracle: (a) metamorphic twin — the same program without
// the evictions must produce identical replies; (b) invariant — at every
// quiescent point every live L1 entry equals a live L2 entry.

func stripEvictions(p Plan) Plan {
	q := p.Clone()
	q.Steps = q.Steps[:0]
	for _, s := range p.Steps {
		if s.Evict == nil {
			q.Steps = append(q.Steps, s)
		}
	}
	q.Seg = 0
	return q
}

func execC02(t *testing.T, p Plan, src kernel.Source) Result {
	var with, without []string
	res := execSeq(t, p, src, seqOpts{Subset: true, Record: &with})
	if res.V != nil || res.Infra != "" {
		return res
	}
	twin := execSeq(t, stripEvictions(p), kernel.ZeroSource{}, seqOpts{Record: &without})
	if twin.Infra != "" {
		res.Infra = "twin run: " + twin.Infra
		return res
	}
	// map reply index -> step index of the evicting plan
	var opSteps []int
	for i, s := range p.Steps {
		if s.Op != nil {
			opSteps = append(opSteps, i)
		}
	}
	n := len(with)
	if len(without) < n {
		n = len(without)
	}
	for i := 0; i < n; i++ {
		if with[i] != without[i] {
			st := p.Steps[opSteps[i]]
			res.V = &Violation{Prop: "C02", Rule: "reply_differs", Step: opSteps[i],
				Class: "reply_differs:" + st.Op.Kind + "/" + p.Conns[st.Conn].Port,
				Msg:   fmt.Sprintf("%s: with the L1 evictions the client saw %s, without them %s", st, with[i], without[i])}
			return res
		}
	}
	if len(with) != len(without) {
		res.V = &Violation{Prop: "C02", Rule: "reply_count", Step: len(p.Steps) - 1, Class: "reply_count",
			Msg: fmt.Sprintf("%d commands answered with the evictions, %d without", len(with), len(without))}
	}
	return res
}

func genC02(seed uint64, tier string) Plan {
	g := newGen(seed)
	c := stack.Cfg{L1: pick(g, []string{"std", "std", "std", "chunked"}), L2: "std", GetEAbsolute: g.p(1, 2)}
	c.Shape = pick(g, []string{"l1l2", "l1l2batch", "l1l2batch"})
	if g.p(1, 4) {
		c.Locked = true
		c.MultiReader = g.p(1, 2)
		c.Concurrency = uint8(g.n(3))
	}
	p := Plan{Prop: "C02", Seed: seed, Cfg: c, Seg: pick(g, []int{0, 0, 2})}
	p.Conns = g.conns(c, 3)
	keys := g.keys(1 + g.n(3))
	nsteps := 4 + g.n(20)
	now := int64(946684800)
	rich := g.p(1, 2)
	var opq uint32 = 100
	for i := 0; i < nsteps; i++ {
		switch {
		case g.p(1, 10):
			adv := pick(g, []int64{1, 2, 3, 10})
			p.Steps = append(p.Steps, Step{Advance: adv})
			now += adv
		case g.p(1, 4):
			var ev []string
			switch g.n(4) {
			case 0:
				ev = []string{"*"}
			default:
				for _, k := range keys {
					if g.p(1, 2) {
						ev = append(ev, k)
					}
				}
				if len(ev) == 0 {
					ev = []string{pick(g, keys)}
				}
			}
			p.Steps = append(p.Steps, Step{Evict: ev})
		default:
			ci := g.n(len(p.Conns))
			op := g.dataOp(p.Conns[ci].Proto, keys, now, rich, &opq)
			p.Steps = append(p.Steps, Step{Conn: ci, Op: &op})
		}
	}
	return p
}

// enumC02 enumerates, for a fixed family of short base programs (<= 4 commands on
// keys a, bb), every eviction position x every non-empty subset of {a, bb}.
func enumC02(tier string) []Plan {
	nbase := 60
	if tier == "thorough" {
		nbase = 1500
	}
	var out []Plan
	subsets := [][]string{{"a"}, {"bb"}, {"a", "bb"}}
	for b := 0; b < nbase; b++ {
		g := newGen(uint64(0xC02000 + b))
		c := stack.Cfg{L1: "std", L2: "std", GetEAbsolute: b%2 == 0}
		c.Shape = []string{"l1l2", "l1l2batch"}[b%2]
		base := Plan{Prop: "C02", Seed: uint64(0xC02000 + b), Cfg: c}
		base.Conns = g.conns(c, 2)
		ncmd := 2 + g.n(3)
		var opq uint32 = 100
		for i := 0; i < ncmd; i++ {
			ci := g.n(len(base.Conns))
			op := g.dataOp(base.Conns[ci].Proto, []string{"a", "bb"}, 946684800, false, &opq)
			base.Steps = append(base.Steps, Step{Conn: ci, Op: &op})
		}
		for pos := 1; pos < ncmd; pos++ {
			for _, sub := range subsets {
				p := base.Clone()
				steps := append([]Step{}, p.Steps[:pos]...)
				steps = append(steps, Step{Evict: sub})
				steps = append(steps, p.Steps[pos:]...)
				p.Steps = steps
				out = append(out, p)
			}
		}
	}
	return out
}

func init() {
	register(&Prop{
		ID: "C02", Gen: genC02, Exec: execC02, Enumerate: enumC02, Level: "fault_enumeration",
		Nontrivial: func(p Plan, r Result) bool { return r.Probes["evictions"] > 0 && nontrivialSeq(p, r) },
		Rule:       "fault = eviction of a subset of L1's entries between two commands. Enumerated part: a fixed family of short base programs (2-4 commands over keys a, bb; main and batch port) x every position between commands x every non-empty subset of the keys (exhaustive for that family). Seeded part: longer command sequences (main + batch port, with/without locking, direct or chunked L1) with evictions of drawn subsets / everything at drawn positions and clock steps. Oracle: replies identical to the twin run without evictions, and L1 subset-of L2 (value and flags) at every quiescent point. Non-trivial = an eviction happened and a later command addresses a key written earlier; distinct = distinct plan hash",
		Real:       append(append([]string{}, realFullStack...), "handlers/memcached/chunked (L1 in a quarter of the seeded runs)"),
		Stub:       stubFullStack,
		FaultKinds: []string{"evict_l1_subset", "evict_l1_all"},
		RunsQuick:  3000, RunsThorough: 80000,
	})
}
