package props

import (
	"testing"

	"rendsim/kernel"
)

// shrink minimises a failing (plan, trace) pair: structural delta debugging on the
// plan (drop steps, connections, faults; shorten values; zero TTLs and flags;
// plainer segmentation), then on the schedule (truncate / zero decisions). A
// candidate is accepted iff it still fails with the same violation class.
func shrink(t *testing.T, pr *Prop, p Plan, trace []kernel.Choice, v *Violation, budget int) (Plan, []kernel.Choice, *Violation, int) {
	execs := 0
	try := func(cp Plan, ct []kernel.Choice) (*Violation, []kernel.Choice, bool) {
		if execs >= budget {
			return nil, nil, false
		}
		execs++
		r := pr.Exec(t, cp, &kernel.TraceSource{T: ct})
		if r.V != nil && r.V.Class == v.Class && r.Infra == "" {
			return r.V, r.Trace, true
		}
		return nil, nil, false
	}
	best, bt, bv := p, trace, v
	improved := true
	for improved && execs < budget {
		improved = false
		// 1. drop steps, largest chunks first
		for chunk := len(best.Steps) / 2; chunk >= 1; chunk /= 2 {
			for i := 0; i+chunk <= len(best.Steps); {
				cp := best.Clone()
				cp.Steps = append(cp.Steps[:i:i], cp.Steps[i+chunk:]...)
				if nv, nt, ok := try(cp, bt); ok {
					best, bt, bv = cp, nt, nv
					improved = true
				} else {
					i += chunk
				}
				if execs >= budget {
					break
				}
			}
		}
		// 1b. drop per-connection programs' operations (concurrent plans)
		for ci := range best.Progs {
			for i := 0; i < len(best.Progs[ci]); {
				cp := best.Clone()
				cp.Progs[ci] = append(cp.Progs[ci][:i:i], cp.Progs[ci][i+1:]...)
				if nv, nt, ok := try(cp, bt); ok {
					best, bt, bv = cp, nt, nv
					improved = true
				} else {
					i++
				}
			}
		}
		// 1c. drop requests inside pipelines
		for si := range best.Steps {
			for i := 0; i < len(best.Steps[si].Pipe) && len(best.Steps[si].Pipe) > 1; {
				cp := best.Clone()
				cp.Steps[si].Pipe = append(cp.Steps[si].Pipe[:i:i], cp.Steps[si].Pipe[i+1:]...)
				if nv, nt, ok := try(cp, bt); ok {
					best, bt, bv = cp, nt, nv
					improved = true
				} else {
					i++
				}
			}
		}
		// 2. drop faults
		for i := 0; i < len(best.Faults); {
			cp := best.Clone()
			cp.Faults = append(cp.Faults[:i:i], cp.Faults[i+1:]...)
			if nv, nt, ok := try(cp, bt); ok {
				best, bt, bv = cp, nt, nv
				improved = true
			} else {
				i++
			}
		}
		// 3. drop unused connections
		for ci := len(best.Conns) - 1; ci >= 1; ci-- {
			used := false
			for _, s := range best.Steps {
				if (s.Op != nil || len(s.Pipe) > 0) && s.Conn == ci {
					used = true
				}
			}
			if used || len(best.Progs) > 0 {
				continue
			}
			cp := best.Clone()
			cp.Conns = append(cp.Conns[:ci:ci], cp.Conns[ci+1:]...)
			for si := range cp.Steps {
				if cp.Steps[si].Conn > ci {
					cp.Steps[si].Conn--
				}
			}
			if nv, nt, ok := try(cp, bt); ok {
				best, bt, bv = cp, nt, nv
				improved = true
			}
		}
		// 4. simplify operations
		for si := range best.Steps {
			op := best.Steps[si].Op
			if op == nil {
				if best.Steps[si].Advance > 1 {
					cp := best.Clone()
					cp.Steps[si].Advance = 1
					if nv, nt, ok := try(cp, bt); ok {
						best, bt, bv = cp, nt, nv
						improved = true
					}
				}
				continue
			}
			if len(op.Data) > 1 {
				for _, n := range []int{1, len(op.Data) / 2} {
					cp := best.Clone()
					cp.Steps[si].Op.Data = cp.Steps[si].Op.Data[:n]
					if nv, nt, ok := try(cp, bt); ok {
						best, bt, bv = cp, nt, nv
						improved = true
						break
					}
				}
			}
			if op.TTL != 0 {
				cp := best.Clone()
				cp.Steps[si].Op.TTL = 0
				if nv, nt, ok := try(cp, bt); ok {
					best, bt, bv = cp, nt, nv
					improved = true
				}
			}
			if op.Flags != 0 {
				cp := best.Clone()
				cp.Steps[si].Op.Flags = 0
				if nv, nt, ok := try(cp, bt); ok {
					best, bt, bv = cp, nt, nv
					improved = true
				}
			}
			if len(op.Keys) > 1 {
				for ki := 0; ki < len(best.Steps[si].Op.Keys) && len(best.Steps[si].Op.Keys) > 1; {
					cp := best.Clone()
					o := cp.Steps[si].Op
					o.Keys = append(o.Keys[:ki:ki], o.Keys[ki+1:]...)
					if ki < len(o.Quiets) {
						o.Quiets = append(o.Quiets[:ki:ki], o.Quiets[ki+1:]...)
					}
					// keep the request well formed: a quiet batch is closed by GET or NOOP
					if !o.Noop && len(o.Quiets) > 0 {
						o.Quiets[len(o.Quiets)-1] = false
					}
					if nv, nt, ok := try(cp, bt); ok {
						best, bt, bv = cp, nt, nv
						improved = true
					} else {
						ki++
					}
				}
			}
		}
		// 5. plainer configuration
		if best.Seg != 0 {
			cp := best.Clone()
			cp.Seg = 0
			if nv, nt, ok := try(cp, bt); ok {
				best, bt, bv = cp, nt, nv
				improved = true
			}
		}
		if best.Cfg.Locked {
			cp := best.Clone()
			cp.Cfg.Locked = false
			if nv, nt, ok := try(cp, bt); ok {
				best, bt, bv = cp, nt, nv
				improved = true
			}
		}
	}
	// 6. schedule: all zeros, then truncation
	if len(bt) > 0 && execs < budget {
		if nv, nt, ok := try(best, nil); ok {
			bt, bv = nt, nv
		} else {
			for cut := len(bt) / 2; cut >= 1 && execs < budget; cut /= 2 {
				for len(bt) > cut {
					if nv, nt, ok := try(best, bt[:len(bt)-cut]); ok && len(nt) <= len(bt) {
						_ = nt
						bt, bv = bt[:len(bt)-cut], nv
					} else {
						break
					}
				}
			}
			// zero individual decisions
			for i := 0; i < len(bt) && execs < budget; i++ {
				if bt[i].C == 0 {
					continue
				}
				ct := append([]kernel.Choice(nil), bt...)
				ct[i].C = 0
				if nv, _, ok := try(best, ct); ok {
					bt, bv = ct, nv
				}
			}
		}
	}
	return best, bt, bv, execs
}
