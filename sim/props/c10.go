package props

import (
	"bytes"
	"fmt"
	"strings"
	"testing"

	"rendsim/kernel"
	"rendsim/model"
	"rendsim/stack"
	"rendsim/wire"
)

// C10 — backend faults are contained: no hang, no crash, no stale value after an ack.
//
// Two client connections: the victim, whose short program runs with one backend
// fault armed (request index x fault kind on L1 or L2), and a bystander on private
// keys. Afterwards fresh connections read every key.

// possible tracks, per victim key, the set of states the reference map may be in
// when unacknowledged writes may or may not have happened.
type kstate struct {
	present bool
	val     string
	flags   uint32
}

func applyK(s kstate, op wire.Op) (kstate, bool) { // returns new state and whether the command succeeds
	switch op.Kind {
	case "set":
		return kstate{true, string(op.Data), op.Flags}, true
	case "add":
		if s.present {
			return s, false
		}
		return kstate{true, string(op.Data), op.Flags}, true
	case "replace":
		if !s.present {
			return s, false
		}
		return kstate{true, string(op.Data), op.Flags}, true
	case "append":
		if !s.present {
			return s, false
		}
		return kstate{true, s.val + string(op.Data), s.flags}, true
	case "prepend":
		if !s.present {
			return s, false
		}
		return kstate{true, string(op.Data) + s.val, s.flags}, true
	case "delete":
		if !s.present {
			return s, false
		}
		return kstate{}, true
	case "touch", "gat":
		return s, s.present
	}
	return s, true
}

type kset map[kstate]bool

func (k kset) list() []kstate {
	var l []kstate
	for s := range k {
		l = append(l, s)
	}
	return l
}

func execC10(t *testing.T, p Plan, src kernel.Source) Result {
	return inBubble(t, p.Seed, src, func(w *kernel.World, res *Result) {
		w.LogEvents = p.X["log"] != 0
		w.SegMode = p.Seg
		// object pools poison on Put and report double Puts: an error path that returns a
		// pooled header twice lets two connections share it later ("other connections are
		// unaffected" would then depend on luck)
		w.Run.Poison = true
		d := stack.Build(w, p.Cfg, nil)
		victim := w.Connect(p.Conns[0].Port)
		w.Settle()
		by := w.Connect(p.Conns[1].Port)
		w.Settle()
		conns := []*kernel.ClientConn{victim, by}
		// the set-up writes always go through the main port (the batch port never fills L1,
		// and a batch-port victim is interesting exactly when its keys are hot in L1)
		var setup *kernel.ClientConn
		if p.Conns[0].Port != "main" {
			setup = w.Connect("main")
			w.Settle()
		}
		ref := model.NewStore(w.Now)     // exact model for the bystander's keys and the set-up
		poss := map[string]kset{}        // victim keys
		lastAcked := map[string]string{} // per key: kind of the last acknowledged write of the victim program
		fclass := "none"
		if len(p.Faults) > 0 {
			f := p.Faults[0]
			fclass = fmt.Sprintf("%s/%s", f.Tier, f.Kind)
		}
		viol := func(i int, rule, class, format string, a ...interface{}) {
			if res.V == nil {
				res.V = &Violation{Prop: "C10", Rule: rule, Step: i, Class: rule + ":" + class, Msg: fmt.Sprintf(format, a...)}
			}
		}
		faultDesc := "no fault"
		if len(p.Faults) > 0 {
			faultDesc = p.Faults[0].String()
		}
		armAt := int(p.X["arm_at"])
		victimDone := int(p.X["victim_end"])
		nb1, nb2 := len(d.L1.Conns), 0
		if d.L2 != nil {
			nb2 = len(d.L2.Conns)
		}
		_ = nb1
		_ = nb2
		for i, st := range p.Steps {
			if res.V != nil {
				return
			}
			if st.Op == nil {
				continue
			}
			if i == armAt {
				if p.X["evict_l1"] != 0 && d.L2 != nil {
					// the victim's keys are in L2 only when the fault strikes: reads then
					// back-fill L1 and writes meet an L1 that does not hold the key
					st1 := d.L1.Fake.Store
					for _, bk := range st1.LiveKeys() {
						for _, k := range []string{"a", "bb"} {
							if bk == k || bk == k+"-meta" || isChunkKeyOf(bk, k) {
								st1.Evict(bk)
							}
						}
					}
					res.probe("victim_keys_evicted_from_l1")
				}
				w.ArmFor(p.Faults, victim.Name)
			}
			if i == victimDone {
				w.Disarm()
			}
			cc := conns[st.Conn]
			if setup != nil && st.Conn == 0 && i < armAt {
				cc = setup
			}
			proto := p.Conns[st.Conn].Proto
			op := *st.Op
			isVictim := st.Conn == 0 && i >= armAt && i < victimDone
			if cc.C.ClosedByRend() {
				if isVictim {
					// the connection was closed by an earlier fault: the rest of the program is not sent
					continue
				}
				viol(i, "bystander_closed", fclass, "%s: the bystander's connection was closed", faultDesc)
				return
			}
			if !w.Send(cc, encode(proto, op)) {
				viol(i, "no_quiescence", fclass, "%s: no quiescence after %s", faultDesc, op)
				return
			}
			reply := append([]byte(nil), cc.Unread()...)
			cc.Consume(len(reply))
			closed := cc.C.ClosedByRend()
			o := decodeReply(proto, op, reply, closed)
			class := fmt.Sprintf("%s/%s/%s", op.Kind, fclass, p.Cfg.L1)
			if !isVictim {
				// exact oracle
				exp := applyModel(ref, op)
				if closed {
					viol(i, "bystander_closed", class, "%s: rend closed the connection of a client that was not involved, during %s", faultDesc, op)
					return
				}
				if o.Garbage != "" || o.Incomplete {
					viol(i, "bystander_reply", class, "%s: %s on the other connection got a malformed or incomplete reply %q", faultDesc, op, trunc(reply))
					return
				}
				if m := compareOutcome(proto, op, o, exp); m != "" {
					viol(i, "bystander_reply", class, "%s: %s on the other connection -> %s", faultDesc, op, m)
					return
				}
				// set-up writes of victim keys by the victim connection before arming
				if st.Conn == 0 {
					k := op.Key
					if k != "" {
						e := ref.Peek(k)
						if e == nil {
							poss[k] = kset{kstate{}: true}
						} else {
							poss[k] = kset{kstate{true, string(e.Value), e.Flags}: true}
						}
					}
				}
				continue
			}
			// --- victim command under fault ---
			if o.Garbage != "" {
				viol(i, "malformed_reply", class, "%s: reply to %s is not well formed: %s (%q)", faultDesc, op, o.Garbage, trunc(reply))
				return
			}
			complete := replyCompleteNoModel(proto, op, reply)
			if op.Quiet && proto == "bin" && len(reply) == 0 {
				complete = true
			}
			if !closed && (!complete || o.Incomplete) {
				viol(i, "hang", class, "%s: %s is neither answered completely nor is the connection closed, and nothing can happen any more (reply so far %q)", faultDesc, op, trunc(reply))
				return
			}
			if closed {
				res.probe("victim_closed")
				// all three sockets of an aborted connection are closed
				for _, tier := range []*kernel.Tier{d.L1, d.L2} {
					if tier == nil {
						continue
					}
					for _, b := range tier.Conns {
						if b.Owner == victim.Name && !b.C.ClosedByRend() {
							viol(i, "backend_conn_left_open", class, "%s: rend closed the victim's client socket but left its %s backend connection %s open", faultDesc, tier.Name, b.C.Name)
							return
						}
					}
				}
			}
			// update the possible states of the key
			acked := !closed && (o.Status == "ok" || (o.Status == "none" && op.Quiet))
			keys := []string{}
			if op.Key != "" {
				keys = append(keys, op.Key)
			}
			for _, k := range keys {
				if acked && op.Kind != "touch" && op.Kind != "gat" {
					lastAcked[k] = op.Kind
				}
				cur := poss[k]
				if cur == nil {
					cur = kset{kstate{}: true}
				}
				next := kset{}
				for s := range cur {
					ns, ok := applyK(s, op)
					switch {
					case acked && (op.Kind == "touch"):
						next[s] = true
					case acked:
						if ok {
							next[ns] = true
						}
					default:
						// not acknowledged (error reply, benign failure, closed): it may or may not have happened
						next[s] = true
						next[ns] = true
					}
				}
				if acked && len(next) == 0 {
					// acknowledged although no possible state allows success: keep going with
					// the post-states (the read check below will judge what is visible)
					for s := range cur {
						ns, _ := applyK(s, op)
						next[ns] = true
					}
				}
				poss[k] = next
			}
			// reads by the victim under fault: values must be possible
			if (op.Kind == "get" || op.Kind == "gat") && !closed {
				for _, v := range o.Values {
					k := v.Key
					if m := possibleRead(poss[k], v); m != "" {
						viol(i, "wrong_read", class, "%s: %s returned for %q %s", faultDesc, op, k, m)
						return
					}
				}
			}
		}
		w.Disarm()
		if res.V != nil {
			return
		}
		if faults := w.Run.TakeFaults(); len(faults) > 0 {
			viol(len(p.Steps), "pool_misuse", fclass+"/"+p.Cfg.L1, "%s: while handling the fault rend misused a shared object pool (%s); the object can now be handed to two connections at once", faultDesc, strings.Join(faults, "; "))
			return
		}
		// fresh connections read every victim key: never the pre-write value after an ack
		fresh := w.Connect("main")
		w.Settle()
		for _, k := range sortedKeysK(poss) {
			for rep := 0; rep < 2; rep++ {
				op := wire.Op{Kind: "get", Keys: []string{k}, Quiets: []bool{false}}
				if fresh.C.ClosedByRend() {
					fresh = w.Connect("main")
					w.Settle()
				}
				w.Send(fresh, wire.EncodeText(op))
				reply := append([]byte(nil), fresh.Unread()...)
				fresh.Consume(len(reply))
				o := decodeReply("text", op, reply, fresh.C.ClosedByRend())
				if fresh.C.ClosedByRend() || o.Garbage != "" || o.Incomplete || o.Status != "ok" {
					viol(len(p.Steps), "later_read_failed", fclass+"/"+p.Cfg.L1, "%s: after the fault a fresh client's get %q got %q (closed=%v)", faultDesc, k, trunc(reply), fresh.C.ClosedByRend())
					return
				}
				for _, v := range o.Values {
					if m := possibleRead(poss[k], v); m != "" {
						la := lastAcked[k]
						if la == "" {
							la = "none"
						}
						viol(len(p.Steps), "stale_or_wrong_read", "after_acked_"+la+"/"+fclass+"/"+p.Cfg.L1, "%s: after the fault a fresh client's get %q returned %s; history of the key on the victim connection: %s", faultDesc, k, m, victimHistory(p, k))
						return
					}
				}
			}
		}
		// ... also from L2 alone: with the keys evicted from L1 the reads must still be possible
		// values (a write acknowledged on the strength of L1 alone would show here)
		if d.L2 != nil {
			st1 := d.L1.Fake.Store
			for _, bk := range st1.LiveKeys() {
				for k := range poss {
					if bk == k || bk == k+"-meta" || isChunkKeyOf(bk, k) {
						st1.Evict(bk)
					}
				}
			}
			for _, k := range sortedKeysK(poss) {
				op := wire.Op{Kind: "get", Keys: []string{k}, Quiets: []bool{false}}
				if fresh.C.ClosedByRend() {
					fresh = w.Connect("main")
					w.Settle()
				}
				w.Send(fresh, wire.EncodeText(op))
				reply := append([]byte(nil), fresh.Unread()...)
				fresh.Consume(len(reply))
				o := decodeReply("text", op, reply, fresh.C.ClosedByRend())
				if fresh.C.ClosedByRend() || o.Garbage != "" || o.Incomplete || o.Status != "ok" {
					viol(len(p.Steps), "later_read_failed", fclass+"/"+p.Cfg.L1, "%s: after the fault, with L1 emptied, a fresh client's get %q got %q (closed=%v)", faultDesc, k, trunc(reply), fresh.C.ClosedByRend())
					return
				}
				for _, v := range o.Values {
					if m := possibleRead(poss[k], v); m != "" {
						viol(len(p.Steps), "stale_or_wrong_read", "l2_only/"+fclass+"/"+p.Cfg.L1, "%s: after the fault, with the key evicted from L1, a fresh client's get %q returned %s (what L2 holds); history of the key on the victim connection: %s", faultDesc, k, m, victimHistory(p, k))
						return
					}
				}
			}
		}
		// ... and can write them: nothing the faulted command held is still held
		for _, k := range sortedKeysK(poss) {
			val := []byte("after-fault-" + k)
			set := wire.Op{Kind: "set", Key: k, Data: val, Flags: 4}
			get := wire.Op{Kind: "get", Keys: []string{k}, Quiets: []bool{false}}
			if fresh.C.ClosedByRend() {
				fresh = w.Connect("main")
				w.Settle()
			}
			w.Send(fresh, wire.EncodeText(set))
			w.Send(fresh, wire.EncodeText(get))
			reply := append([]byte(nil), fresh.Unread()...)
			fresh.Consume(len(reply))
			want := fmt.Sprintf("STORED\r\nVALUE %s 4 %d\r\n%s\r\nEND\r\n", k, len(val), val)
			if string(reply) != want {
				viol(len(p.Steps), "later_write_failed", fclass+"/"+p.Cfg.L1, "%s: after the fault a fresh client's set %q / get %q got %q (closed=%v)", faultDesc, k, k, trunc(reply), fresh.C.ClosedByRend())
				return
			}
		}
		if len(w.Stat.FaultsFired) == 0 {
			res.Trivial = true
		}
	})
}

func sortedKeysK(m map[string]kset) []string {
	var ks []string
	for k := range m {
		ks = append(ks, k)
	}
	sortStrings(ks)
	return ks
}

func victimHistory(p Plan, k string) string {
	s := ""
	for _, st := range p.Steps {
		if st.Op != nil && st.Conn == 0 && st.Op.Key == k {
			s += st.Op.String() + "; "
		}
	}
	return s
}

// possibleRead checks a value returned by a read against the possible states.
func possibleRead(set kset, v ObsVal) string {
	for s := range set {
		if s.present && s.val == string(v.Data) && s.flags == v.Flags {
			return ""
		}
	}
	var poss []string
	for s := range set {
		if s.present {
			poss = append(poss, fmt.Sprintf("%s/flags %d", short([]byte(s.val)), s.flags))
		} else {
			poss = append(poss, "absent")
		}
	}
	return fmt.Sprintf("%s flags %d, but the key can only hold one of %v", short(v.Data), v.Flags, poss)
}

// Error statuses injected as faults. NOT_FOUND (0x01), EXISTS (0x02) and NOT_STORED
// (0x05) are not in the list: they are statements about the key's presence, which a
// memcached never gets wrong, and rend rightly acts on them (e.g. "L1 replace said not
// found, so L1 does not hold the key"). Injecting them while the opposite is true would
// simulate a lying backend, not a failing one. They occur truthfully in every other check.
// The one exception is NOT_STORED in answer to a REPLACE (c10NotStoredOnReplace below):
// memcached answers a replace of a missing key with NOT_FOUND and never with NOT_STORED,
// so there it says nothing about the key and is a refusal like the others.
var c10Statuses = []uint16{0x03, 0x04, 0x81, 0x82, 0x83, 0x84, 0x85, 0x86}

func c10Faults(tier string, idx int) []kernel.Fault {
	var fs []kernel.Fault
	for _, st := range c10Statuses {
		fs = append(fs, kernel.Fault{Kind: "status", Tier: tier, Index: idx, Status: st})
	}
	fs = c10ClosingFaults(fs, tier, idx)
	// last, so that the positions of the faults above stay what they were: the kernel lets
	// this one fire only on a REPLACE / REPLACEQ request
	return append(fs, kernel.Fault{Kind: "status", Tier: tier, Index: idx, Status: kernel.StatusNotStoredOnReplace})
}

func c10ClosingFaults(fs []kernel.Fault, tier string, idx int) []kernel.Fault {
	for _, silent := range []bool{false, true} {
		fs = append(fs, kernel.Fault{Kind: "close_before", Tier: tier, Index: idx, Silent: silent})
		fs = append(fs, kernel.Fault{Kind: "close_applied", Tier: tier, Index: idx, Silent: silent})
		fs = append(fs, kernel.Fault{Kind: "close_after", Tier: tier, Index: idx, Silent: silent})
		for _, cut := range []int{1, 23, 24, 26, 28, 30, 60} {
			fs = append(fs, kernel.Fault{Kind: "close_mid", Tier: tier, Index: idx, Cut: cut, Silent: silent})
		}
	}
	return fs
}

// the set-up steps are the same in every C10 plan; the ops are shared (read-only)
var c10Pre = func() []Step {
	big := bytes.Repeat([]byte("0123456789"), 230) // 2300 bytes: three chunks when L1 is chunked
	return []Step{
		{Conn: 0, Op: &wire.Op{Kind: "set", Key: "a", Data: append([]byte("old-a:"), big[:40]...), Flags: 1, Opaque: 11}},
		{Conn: 0, Op: &wire.Op{Kind: "set", Key: "bb", Data: append([]byte("old-bb:"), big...), Flags: 2, Opaque: 12}},
		{Conn: 1, Op: &wire.Op{Kind: "set", Key: "by", Data: []byte("bystander-1"), Flags: 3}},
	}
}()

func c10Base(id uint64, cfg stack.Cfg, proto string, victimOps []wire.Op) Plan {
	p := Plan{Prop: "C10", Seed: id, Cfg: cfg, Conns: []ConnSpec{{Port: "main", Proto: proto}, {Port: "main", Proto: "text"}}}
	p.Steps = append(p.Steps, c10Pre...)
	p.X = map[string]int64{"arm_at": int64(len(p.Steps))}
	for i := range victimOps {
		p.Steps = append(p.Steps, Step{Conn: 0, Op: &victimOps[i]})
		if i == 0 {
			p.Steps = append(p.Steps, Step{Conn: 1, Op: &wire.Op{Kind: "get", Keys: []string{"by"}}})
		}
	}
	p.X["victim_end"] = int64(len(p.Steps))
	p.Steps = append(p.Steps,
		Step{Conn: 1, Op: &wire.Op{Kind: "append", Key: "by", Data: []byte("+2")}},
		Step{Conn: 1, Op: &wire.Op{Kind: "get", Keys: []string{"by", "nokey"}}},
	)
	// the arming step index must refer to a victim step; bystander steps inside the
	// window are checked exactly (isVictim is false for them)
	return p
}

func c10VictimPrograms(proto string) [][]wire.Op {
	big := bytes.Repeat([]byte("abcdefghij"), 230)
	nv := func(s string) []byte { return []byte("new-" + s) }
	progs := [][]wire.Op{
		{{Kind: "set", Key: "a", Data: nv("a1"), Flags: 9, Opaque: 100}},
		{{Kind: "set", Key: "bb", Data: append(nv("bb1:"), big...), Flags: 9, Opaque: 101}},
		{{Kind: "set", Key: "zz", Data: nv("zz1"), Flags: 9, Opaque: 102}},
		{{Kind: "add", Key: "zz", Data: nv("zz2"), Flags: 8, Opaque: 103}},
		{{Kind: "add", Key: "a", Data: nv("a2"), Flags: 8, Opaque: 104}},
		{{Kind: "replace", Key: "a", Data: nv("a3"), Flags: 7, Opaque: 105}},
		{{Kind: "replace", Key: "bb", Data: append(nv("bb3:"), big...), Flags: 7, Opaque: 106}},
		{{Kind: "append", Key: "a", Data: nv("a4"), Opaque: 107}},
		{{Kind: "prepend", Key: "bb", Data: nv("bb5"), Opaque: 108}},
		{{Kind: "delete", Key: "a", Opaque: 109}},
		{{Kind: "delete", Key: "bb", Opaque: 110}},
		{{Kind: "touch", Key: "a", TTL: 0, Opaque: 111}},
		{{Kind: "get", Keys: []string{"a"}, Quiets: []bool{false}, Opaque: 112}},
		{{Kind: "get", Keys: []string{"bb"}, Quiets: []bool{false}, Opaque: 113}},
		{{Kind: "get", Keys: []string{"a", "zz", "bb"}, Quiets: []bool{proto == "bin", proto == "bin", false}, Opaque: 114}},
		{{Kind: "set", Key: "a", Data: nv("a6"), Flags: 6, Opaque: 120}, {Kind: "get", Keys: []string{"a"}, Quiets: []bool{false}, Opaque: 121}},
		{{Kind: "delete", Key: "bb", Opaque: 130}, {Kind: "get", Keys: []string{"bb"}, Quiets: []bool{false}, Opaque: 131}, {Kind: "set", Key: "bb", Data: nv("bb7"), Opaque: 132}},
	}
	// programs whose last command writes after an earlier command used the same backend
	// connections (a connection that died silently is only noticed by the next write)
	progs = append(progs,
		[]wire.Op{{Kind: "touch", Key: "a", TTL: 0, Opaque: 170}, {Kind: "set", Key: "a", Data: nv("a9"), Flags: 4, Opaque: 171}},
		[]wire.Op{{Kind: "get", Keys: []string{"a"}, Quiets: []bool{false}, Opaque: 172}, {Kind: "set", Key: "a", Data: nv("a10"), Flags: 4, Opaque: 173}},
		[]wire.Op{{Kind: "get", Keys: []string{"bb"}, Quiets: []bool{false}, Opaque: 174}, {Kind: "delete", Key: "bb", Opaque: 175}},
		[]wire.Op{{Kind: "touch", Key: "bb", TTL: 0, Opaque: 176}, {Kind: "append", Key: "bb", Data: nv("bb11"), Opaque: 177}},
		[]wire.Op{{Kind: "set", Key: "a", Data: nv("a12"), Flags: 3, Opaque: 178}, {Kind: "replace", Key: "a", Data: nv("a13"), Flags: 2, Opaque: 179}},
	)
	if proto == "bin" {
		progs = append(progs,
			[]wire.Op{{Kind: "gat", Key: "a", TTL: 0, Opaque: 140}},
			[]wire.Op{{Kind: "gat", Key: "bb", TTL: 0, Opaque: 141}},
			[]wire.Op{{Kind: "gat", Key: "zz", TTL: 0, Opaque: 142}},
			[]wire.Op{{Kind: "get", Keys: []string{"bb", "a"}, Quiets: []bool{true, true}, Noop: true, Opaque: 150}},
			[]wire.Op{{Kind: "set", Key: "a", Data: nv("a8"), Flags: 5, Opaque: 160, Quiet: true}, {Kind: "get", Keys: []string{"a"}, Quiets: []bool{false}, Opaque: 161}},
			// a multi-key get followed by a GETEQ batch closed by NOOP (served by L1-only
			// deployments with the direct handler only: see c10UsesGetE)
			[]wire.Op{{Kind: "get", Keys: []string{"a", "zz", "bb"}, Quiets: []bool{true, true, false}, Opaque: 180}, {Kind: "get", Keys: []string{"bb", "a"}, Quiets: []bool{true, true}, Noop: true, E: true, Opaque: 190}},
		)
	}
	return progs
}

func c10UsesGetE(prog []wire.Op) bool {
	for _, o := range prog {
		if o.E {
			return true
		}
	}
	return false
}

func c10Cfgs() []stack.Cfg {
	var out []stack.Cfg
	for _, shape := range []string{"l1only", "l1l2", "l1l2batch"} {
		for _, l1 := range []string{"std", "chunked"} {
			c := stack.Cfg{Shape: shape, L1: l1, L2: "std", GetEAbsolute: true}
			if shape == "l1only" {
				c.L2 = ""
			}
			out = append(out, c)
		}
	}
	return out
}

func enumC10(tier string) []Plan {
	out := make([]Plan, 0, 40000)
	if tier == "thorough" {
		out = make([]Plan, 0, 160000)
	}
	n := uint64(0)
	for ci, cfg := range c10Cfgs() {
		for _, proto := range []string{"text", "bin"} {
			for pi, prog := range c10VictimPrograms(proto) {
				getE := c10UsesGetE(prog)
				if getE && !(cfg.Shape == "l1only" && cfg.L1 == "std") {
					continue // GETE is served by L1-only deployments with the direct handler
				}
				tiers := []string{"l1"}
				if cfg.HasL2() {
					tiers = append(tiers, "l2")
				}
				for _, tr := range tiers {
					maxIdx := 3
					if cfg.L1 == "chunked" && tr == "l1" {
						maxIdx = 9
					}
					for idx := 0; idx <= maxIdx; idx++ {
						for fi, f := range c10Faults(tr, idx) {
							n++
							if tier != "thorough" {
								// quick: every refusal status at every position (rend treats some
								// statuses specially, and which ones is exactly what may change), and a
								// rotating sixth of the connection faults
								if f.Kind != "status" && (int(n)+ci+pi+fi)%6 != 0 {
									continue
								}
								if f.Kind == "status" && !getE && (pi+idx+ci)%2 != 0 && (int(n)+ci+pi+fi)%6 != 0 {
									continue
								}
							}
							p := c10Base(0xC10000+n, cfg, proto, append([]wire.Op{}, prog...))
							if cfg.Shape == "l1l2batch" && (pi+idx+fi)%2 == 0 {
								// the victim on the batch port (independently of the fault's parity)
								p.Conns[0].Port = "batch"
							}
							p.Faults = []kernel.Fault{f}
							out = append(out, p)
							if getE {
								// ... and under the locking wrapper (per-connection state of the
								// wrapper is shared between get and gete)
								q := p.Clone()
								q.Seed += 1 << 34
								q.Cfg.Locked = true
								q.Cfg.MultiReader = n%2 == 0
								out = append(out, q)
							}
							// the same case with the victim's keys evicted from L1 (reads then
							// back-fill L1 under the fault), under the locking wrapper in half of
							// them: every third case of the two-tier deployments
							if cfg.HasL2() && (tier == "thorough" || n%3 == 0) {
								q := p.Clone()
								q.Seed += 1 << 32
								q.X["evict_l1"] = 1
								if n%2 == 1 {
									q.Cfg.Locked = true
									q.Cfg.MultiReader = n%4 == 1 && cfg.L1 != "chunked"
								}
								out = append(out, q)
							}
						}
					}
				}
			}
		}
	}
	return out
}

func genC10(seed uint64, tier string) Plan {
	g := newGen(seed)
	cfg := pick(g, c10Cfgs())
	if g.p(1, 4) {
		cfg.Locked = true
		cfg.MultiReader = g.p(1, 2) && cfg.L1 != "chunked"
		cfg.Concurrency = uint8(g.n(2))
	}
	evict := g.p(1, 3)
	proto := pick(g, []string{"text", "bin"})
	progs := c10VictimPrograms(proto)
	if !(cfg.Shape == "l1only" && cfg.L1 == "std") {
		var plain [][]wire.Op
		for _, pr := range progs {
			if !c10UsesGetE(pr) {
				plain = append(plain, pr)
			}
		}
		progs = plain
	}
	prog := append([]wire.Op{}, pick(g, progs)...)
	if g.p(1, 2) {
		prog = append(prog, pick(g, progs)...)
		if len(prog) > 3 {
			prog = prog[:3]
		}
		for i := range prog {
			prog[i].Opaque = uint32(500 + 10*i)
		}
	}
	if g.p(1, 16) {
		// a value the backend itself refuses as too large (more than 1 MiB): the refusal is
		// truthful, nothing is stored, and the connection must stay usable
		huge := bytes.Repeat([]byte("H"), 1<<20+1+g.n(2000))
		prog = []wire.Op{{Kind: pick(g, []string{"set", "set", "add", "replace", "append"}), Key: pick(g, []string{"a", "zz"}), Data: huge, Flags: 5, Opaque: 600},
			{Kind: "get", Keys: []string{"a"}, Quiets: []bool{false}, Opaque: 610},
			{Kind: "set", Key: "a", Data: []byte("new-after-huge"), Flags: 6, Opaque: 620}}
		if cfg.L1 == "chunked" {
			cfg.L1 = "std" // a megabyte through the chunking handler is a thousand backend requests
		}
	}
	p := c10Base(seed, cfg, proto, prog)
	if cfg.Shape == "l1l2batch" && g.p(1, 2) {
		p.Conns[0].Port = "batch"
	}
	p.Seg = pick(g, []int{0, 0, 2})
	if evict {
		p.X["evict_l1"] = 1
	}
	tr := "l1"
	if cfg.HasL2() && g.p(1, 2) {
		tr = "l2"
	}
	fs := c10Faults(tr, g.n(12))
	p.Faults = []kernel.Fault{pick(g, fs)}
	return p
}

func init() {
	register(&Prop{
		ID: "C10", Gen: genC10, Exec: execC10, Enumerate: enumC10, Level: "fault_enumeration",
		Nontrivial: func(p Plan, r Result) bool { return !r.Trivial },
		Rule:       "one backend fault per run, addressed by (tier, index of the backend request counted from the start of the victim's program, kind): each of the 8 memcached error statuses that are refusals rather than statements about the key (E2BIG, EINVAL, UNKNOWN_COMMAND, ENOMEM, NOT_SUPPORTED, INTERNAL, BUSY, TMPFAIL; NOT_FOUND / EXISTS / NOT_STORED otherwise occur only truthfully) with its text body, plus NOT_STORED where the addressed backend request is a REPLACE (memcached never answers a replace that way, so there it is a refusal too; on any other request the planned fault does not fire), connection closed before the request is applied / after it is applied but before the reply / after n reply bytes (n in {1, 23, 24, 26, 28, 30, 60}) / after the reply, each with EPIPE or silent write mode (37 faults per position). Enumerated part: 22 text / 28 binary victim programs (one of them a multi-key get followed by a GETEQ batch closed by NOOP, run on the L1-only deployment with the direct handler, with and without the locking wrapper) (every command kind on present and absent keys, 3-chunk values, multi-key and quiet gets, 1-3 commands) x 6 deployments (L1-only / L1L2 / batch port x direct or chunked L1) x tier x request index 0..3 (0..9 on a chunked tier) x the 37 faults (thorough: all; quick: all 8 refusal statuses at every second position, a rotating sixth of them elsewhere, and a rotating sixth of the 28 connection faults; with the batch port the victim alternates between the ports); positions that the program never reaches count as trivial; a third of the two-tier cases (thorough: all) are repeated with the victim's keys evicted from L1 beforehand, half of those under the locking wrapper, so that reads back-fill L1 under the fault. Seeded part: drawn combinations, also under the locking wrapper, with evicted keys and with segmentation; one run in sixteen has the victim write a value of more than 1 MiB, which the simulated memcached truthfully refuses (too large), followed by a get and a set on the same connection. Oracle: victim gets a complete well-formed reply or its connection is closed (never quiescent with a request outstanding; a spinning goroutine is caught by the worker watchdog), an aborted connection has all its backend sockets closed, the bystander connection's replies equal the reference map's, and afterwards fresh connections read for every key only values allowed by a model in which unacknowledged writes may or may not have happened - never the value from before an acknowledged write or delete (read once as the tiers stand and once more with the keys evicted from L1, i.e. from L2 alone) - and can then overwrite every key (set / get answered STORED and the new value: nothing the faulted command held is still held). Non-trivial = the fault fired; distinct = distinct plan hash",
		Real:       append(append([]string{}, realFullStack...), "handlers/memcached/chunked", "server/utils.go abort"),
		Stub:       stubFullStack,
		FaultKinds: []string{"status", "close_before", "close_applied", "close_mid", "close_after"},
		RunsQuick:  3000, RunsThorough: 60000,
	})
}
