package props

import (
	"bytes"
	"encoding/binary"
	"fmt"
	"strings"
	"testing"

	"github.com/netflix/rend/handlers"
	"github.com/netflix/rend/handlers/memcached/chunked"

	"rendsim/kernel"
	"rendsim/mcfake"
	"rendsim/model"
	"rendsim/wire"
)

// C04 — chunked storage is transparent; C16 — fixed-size chunk discipline.
// Handler-level simulation: chunked.NewHandler over a simulated connection to one
// simulated memcached (limits off, so that key lengths up to 250 can be swept).

const (
	slabBudget   = 1184
	itemOverhead = 67
)

// derivedFrom reports whether backend key bk belongs to client key k.
func derivedFrom(bk, k string) bool {
	return bk == k+"-meta" || isChunkKeyOf(bk, k)
}

// payloadFor is the per-chunk payload for a client key of the given length, as the
// property states it: 1184 - 71 - keylen - 16.
func payloadFor(keylen int) int { return slabBudget - 71 - keylen - 16 }

type chunkMon struct {
	viol      string
	chunkLens map[string]int // client key -> value length of its data entries
}

// c16Monitor checks every SET the simulated backend receives.
func (m *chunkMon) onRequest(s *mcfake.Server, r *mcfake.Request) {
	if m.viol != "" {
		return
	}
	if r.Op != mcfake.OpSet && r.Op != mcfake.OpAdd && r.Op != mcfake.OpReplace {
		return
	}
	if strings.HasSuffix(r.Key, "-meta") {
		if len(r.Value) != 40 {
			m.viol = fmt.Sprintf("metadata entry %q written with %d bytes (want the constant 40)", r.Key, len(r.Value))
		}
		return
	}
	i := strings.LastIndexByte(r.Key, '-')
	if i < 0 {
		m.viol = fmt.Sprintf("data entry written under %q, which is neither a metadata nor a chunk key", r.Key)
		return
	}
	ck := r.Key[:i]
	want := slabBudget - 71 - len(ck)
	if len(r.Value) != want {
		m.viol = fmt.Sprintf("chunk %q written with a %d byte value; every data entry of a %d-byte key must be %d bytes", r.Key, len(r.Value), len(ck), want)
		return
	}
	if prev, ok := m.chunkLens[ck]; ok && prev != len(r.Value) {
		m.viol = fmt.Sprintf("chunks of key %q written with different value lengths (%d and %d)", ck, prev, len(r.Value))
		return
	}
	m.chunkLens[ck] = len(r.Value)
	if len(r.Key)+len(r.Value)+itemOverhead > slabBudget {
		m.viol = fmt.Sprintf("chunk %q: key %d + value %d + %d bytes item overhead = %d exceeds the %d byte slab budget", r.Key, len(r.Key), len(r.Value), itemOverhead, len(r.Key)+len(r.Value)+itemOverhead, slabBudget)
	}
}

func execChunkSeq(t *testing.T, p Plan, src kernel.Source, prop string, monitor bool) Result {
	return inBubble(t, p.Seed, src, func(w *kernel.World, res *Result) {
		w.LogEvents = p.X["log"] != 0
		w.SegMode = p.Seg
		tier := w.AddTier("l1", "/sim/chunked.sock")
		tier.Fake.Limits = false
		tier.Fake.LogLimit = 1 << 20
		mon := &chunkMon{chunkLens: map[string]int{}}
		if monitor {
			tier.Fake.OnRequest = mon.onRequest
		}
		nh := 1 + int(p.X["handlers"])
		var hs []handlers.Handler
		for i := 0; i < nh; i++ {
			hs = append(hs, chunked.NewHandler(w.DialBackend("l1", fmt.Sprintf("h%d", i))))
		}
		ref := model.NewStore(w.Now)
		spare := p.X["spare"] != 0
		viol := func(i int, rule, class, format string, a ...interface{}) {
			if res.V == nil {
				res.V = &Violation{Prop: prop, Rule: rule, Step: i, Class: rule + ":" + class, Msg: fmt.Sprintf(format, a...)}
			}
		}
		allKeys := map[string]bool{}
		for i, st := range p.Steps {
			if res.V != nil {
				return
			}
			if st.Advance != 0 {
				w.Advance(secs(st.Advance))
				continue
			}
			if st.Op == nil {
				continue
			}
			op := *st.Op
			logStart := len(tier.Fake.Log)
			curChunks := -1 // chunks referenced by the metadata that is current before the command
			if op.Key != "" {
				if m := tier.Fake.Store.Peek(op.Key + "-meta"); m != nil && len(m.Value) == 40 {
					curChunks = int(binary.BigEndian.Uint32(m.Value[8:12]))
				}
			}
			r, ok := runTask(w, hs[st.Conn%nh], op, spare)
			exp := applyModel(ref, op)
			class := op.Kind
			if !ok {
				viol(i, "hang", class, "%s never returned although the backend answered everything it was sent", op)
				return
			}
			if r.Panic != "" {
				viol(i, "panic", class, "%s panicked: %s", op, r.Panic)
				return
			}
			if monitor && mon.viol != "" {
				viol(i, "slab", class, "%s (key length %d, value length %d): %s", op, len(op.Key), len(op.Data), mon.viol)
				return
			}
			// backend keys touched must be derived from the command's key(s)
			keys := append([]string{}, op.Keys...)
			if op.Key != "" {
				keys = append(keys, op.Key)
			}
			for _, k := range keys {
				allKeys[k] = true
			}
			for _, req := range tier.Fake.Log[logStart:] {
				if req.Op == mcfake.OpNoop {
					continue
				}
				okKey := false
				for _, k := range keys {
					if derivedFrom(req.Key, k) {
						okKey = true
					}
				}
				if !okKey {
					viol(i, "foreign_key", class, "%s made the handler access backend key %q, which is not derived from its key", op, req.Key)
					return
				}
			}
			if prop == "C04" {
				if m := compareH(op, r, exp); m != "" {
					viol(i, "result", class, "%s (key length %d, value length %d, spare capacity %v) -> %s", op, len(op.Key), len(op.Data), spare, m)
					return
				}
				if op.Kind == "delete" && r.Err == nil {
					for _, bk := range tier.Fake.Store.LiveKeys() {
						if !derivedFrom(bk, op.Key) {
							continue
						}
						idx := -1
						if !strings.HasSuffix(bk, "-meta") {
							fmt.Sscanf(bk[len(op.Key)+1:], "%d", &idx)
						}
						if idx >= 0 && curChunks >= 0 && idx >= curChunks {
							// a surplus chunk of an earlier, larger value of the key
							viol(i, "orphan_chunk_after_delete", class, "after %s the backend entry %q is still readable: it is chunk %d of an earlier value that had more chunks than the %d-chunk value that was deleted", op, bk, idx, curChunks)
							return
						}
						viol(i, "delete_leftover", class, "after %s the backend entry %q of that key is still readable", op, bk)
						return
					}
				}
			}
			if monitor && (op.Kind == "set" || op.Kind == "add" || op.Kind == "replace") && r.Err == nil {
				// number of chunks = ceil(len / payload), as recorded in the metadata and as written
				pay := payloadFor(len(op.Key))
				want := (len(op.Data) + pay - 1) / pay
				written := 0
				for _, req := range tier.Fake.Log[logStart:] {
					if req.Op == mcfake.OpSet && isChunkKeyOf(req.Key, op.Key) {
						written++
					}
				}
				meta := tier.Fake.Store.Peek(op.Key + "-meta")
				if meta != nil && len(meta.Value) == 40 {
					if n := int(binary.BigEndian.Uint32(meta.Value[8:12])); n != want {
						viol(i, "chunk_count", class, "%s: metadata records %d chunks for %d bytes with payload %d, want %d", op, n, len(op.Data), pay, want)
						return
					}
				}
				// (also for a value that is expired on arrival: the metadata announces the chunks)
				if written != want {
					viol(i, "chunk_count", class, "%s: %d chunks written for %d bytes with payload %d, want %d", op, written, len(op.Data), pay, want)
					return
				}
				res.probe(fmt.Sprintf("chunks_%d", min(want, 7)))
			}
			res.States = append(res.States, hash64(op.Kind, fmt.Sprint(len(op.Key)), fmt.Sprint(len(op.Data)), fmt.Sprint(r.Err)))
		}
		// distinct client keys never share a backend entry
		owner := map[string]string{}
		for k := range allKeys {
			for _, bk := range tier.Fake.Store.LiveKeys() {
				if derivedFrom(bk, k) {
					if o, ok := owner[bk]; ok && o != k {
						viol(len(p.Steps), "shared_entry", "keys", "backend entry %q is derived from both client keys %q and %q", bk, o, k)
						return
					}
					owner[bk] = k
				}
			}
		}
	})
}

// compareH compares a handler-level result with the reference map.
func compareH(op wire.Op, r HRes, exp Expect) string {
	switch op.Kind {
	case "set", "add", "replace", "append", "prepend", "delete", "touch":
		got := errOutcome(r.Err)
		if exp.Outcome == model.OK {
			if got == "ok" {
				return ""
			}
			return fmt.Sprintf("reference map: success; handler returned %s", got)
		}
		if acceptedFailure(op.Kind, exp.Outcome)[got] {
			return ""
		}
		return fmt.Sprintf("reference map: fails with %s; handler returned %s", exp.Outcome, got)
	case "gat":
		if r.Err != nil {
			return fmt.Sprintf("gat returned error %v", r.Err)
		}
		if len(exp.Hits) == 0 {
			if len(r.Hits) == 0 {
				return ""
			}
			return fmt.Sprintf("reference map: miss; handler returned %s", fmtVals(r.Hits))
		}
		if len(r.Hits) != 1 {
			return fmt.Sprintf("reference map: hit %s; handler returned a miss", fmtVals(exp.Hits))
		}
		return cmpVal(r.Hits[0], exp.Hits[0])
	case "get":
		if r.Err != nil {
			return fmt.Sprintf("get returned error %v", r.Err)
		}
		if len(r.Hits)+len(r.Miss) != len(op.Keys) {
			return fmt.Sprintf("get of %d keys produced %d hits and %d misses", len(op.Keys), len(r.Hits), len(r.Miss))
		}
		got := map[int]ObsVal{}
		for _, v := range r.Hits {
			got[v.Idx] = v
		}
		want := map[int]ObsVal{}
		for _, v := range exp.Hits {
			want[v.Idx] = v
		}
		for i := range op.Keys {
			g, gok := got[i]
			x, xok := want[i]
			if gok != xok {
				return fmt.Sprintf("key #%d %q: reference map hit=%v, handler hit=%v", i, op.Keys[i], xok, gok)
			}
			if gok {
				if m := cmpVal(g, x); m != "" {
					return m
				}
				if !bytes.Equal([]byte(g.Key), []byte(op.Keys[i])) {
					return fmt.Sprintf("key #%d: response carries key %q", i, g.Key)
				}
			}
		}
	}
	return ""
}

// chunk-boundary value lengths for a key length
func boundaryLens(g *gen, keylen int) []int {
	p := payloadFor(keylen)
	ls := []int{0, 1, 2}
	for k := 1; k <= 5; k++ {
		ls = append(ls, k*p-1, k*p, k*p+1)
	}
	ls = append(ls, 12*p, 12*p+1, 37*p-1)
	return ls
}

func (g *gen) chunkKey() string {
	n := pick(g, []int{1, 2, 3, 5, 10, 40, 100, 200, 249, 250})
	if g.p(1, 3) {
		n = 1 + g.n(250)
	}
	b := make([]byte, n)
	for i := range b {
		b[i] = "abcdefghijklmnopqrstuvwxyz0123456789-_"[g.n(38)]
	}
	s := string(b)
	// keys that look like derived keys
	switch g.n(8) {
	case 0:
		if n > 5 {
			s = s[:n-5] + "-meta"
		}
	case 1:
		if n > 2 {
			s = s[:n-2] + "-0"
		}
	case 2:
		s = s[:n-1] + "-"
	}
	return s
}

func genChunkPlan(seed uint64, prop string) Plan {
	g := newGen(seed)
	p := Plan{Prop: prop, Seed: seed, Seg: pick(g, []int{0, 0, 2}), X: map[string]int64{"spare": int64(g.n(2)), "handlers": int64(g.n(2))}}
	base := g.chunkKey()
	keys := []string{base}
	if g.p(1, 2) {
		// a second key that shares a prefix / looks like one of the first key's derived keys
		keys = append(keys, pick(g, []string{base + "-0", base + "-meta", base + "-", base + "0", g.chunkKey()}))
		if len(keys[1]) > 250 {
			keys[1] = keys[1][:250]
		}
	}
	nsteps := 3 + g.n(10)
	now := int64(946684800)
	var opq uint32 = 10
	for i := 0; i < nsteps; i++ {
		if g.p(1, 10) {
			adv := pick(g, []int64{1, 2, 5})
			p.Steps = append(p.Steps, Step{Advance: adv})
			now += adv
			continue
		}
		k := pick(g, keys)
		opq += 10
		op := wire.Op{Key: k, Opaque: opq}
		switch pick(g, []string{"set", "set", "set", "add", "replace", "append", "prepend", "delete", "touch", "get", "get", "mget", "gat"}) {
		case "set":
			op.Kind = "set"
		case "add":
			op.Kind = "add"
		case "replace":
			op.Kind = "replace"
		case "append":
			op.Kind = "append"
		case "prepend":
			op.Kind = "prepend"
		case "delete":
			op.Kind = "delete"
		case "touch":
			op.Kind = "touch"
			op.TTL = g.ttl(now, true)
		case "gat":
			op.Kind = "gat"
			op.TTL = g.ttl(now, true)
		case "get":
			op.Kind, op.Keys, op.Quiets, op.Key = "get", []string{k}, []bool{false}, ""
		case "mget":
			op.Kind, op.Key = "get", ""
			for j := 0; j < 2+g.n(2); j++ {
				op.Keys = append(op.Keys, pick(g, keys))
				op.Quiets = append(op.Quiets, g.p(1, 2))
			}
		}
		switch op.Kind {
		case "set", "add", "replace":
			op.Data = g.value(pick(g, boundaryLens(g, len(k))))
			op.Flags = g.flags()
			op.TTL = g.ttl(now, g.p(1, 3))
		case "append", "prepend":
			op.Data = g.value(pick(g, []int{0, 1, 7, payloadFor(len(k)) - 1, payloadFor(len(k)), payloadFor(len(k)) + 1, 2500}))
		}
		p.Steps = append(p.Steps, Step{Conn: g.n(2), Op: &op})
	}
	return p
}

func genC04(seed uint64, tier string) Plan { return genChunkPlan(seed, "C04") }

func execC04(t *testing.T, p Plan, src kernel.Source) Result {
	return execChunkSeq(t, p, src, "C04", false)
}

// enumC16: every key length 1..250 x boundary value lengths, set then get.
func enumC16(tier string) []Plan {
	var out []Plan
	for kl := 1; kl <= 250; kl++ {
		g := newGen(uint64(0xC16000 + kl))
		key := strings.Repeat("k", kl)
		pay := payloadFor(kl)
		lens := []int{0, 1, pay - 1, pay, pay + 1, 2*pay - 1, 2 * pay, 2*pay + 1, 3 * pay, 6*pay - 1, 6 * pay, 6*pay + 1}
		if tier == "thorough" || kl%10 == 0 || kl <= 3 || kl >= 248 {
			lens = append(lens, 999*pay, 999*pay-1, 998*pay+1, 100*pay+1)
		}
		p := Plan{Prop: "C16", Seed: uint64(0xC16000 + kl), X: map[string]int64{"spare": int64(kl % 2)}}
		var opq uint32
		for _, l := range lens {
			opq += 10
			set := wire.Op{Kind: "set", Key: key, Data: g.value(l), Flags: uint32(l), Opaque: opq}
			get := wire.Op{Kind: "get", Keys: []string{key}, Quiets: []bool{false}, Opaque: opq + 1}
			p.Steps = append(p.Steps, Step{Op: &set}, Step{Op: &get})
		}
		out = append(out, p)
	}
	// items that are already in the backend in another chunk layout
	fid := 0
	for _, kl := range []int64{10, 100, 250} {
		for _, slab := range []int64{2048, 944} {
			for _, prep := range []int64{0, 1} {
				fid++
				out = append(out, Plan{Prop: "C16", Seed: uint64(0xC16F00 + fid), Mode: "foreign",
					X: map[string]int64{"keylen": kl, "foreign_full": slab - 71 - kl, "vlen": 3000, "prepend": prep}})
			}
		}
	}
	return out
}

func genC16(seed uint64, tier string) Plan {
	if seed%2 == 0 {
		return genC16Overlap(seed)
	}
	return genChunkPlan(seed, "C16")
}

func execC16(t *testing.T, p Plan, src kernel.Source) Result {
	if p.Mode == "overlap" {
		return execC16Overlap(t, p, src)
	}
	if p.Mode == "foreign" {
		return execC16Foreign(t, p, src)
	}
	return execChunkSeq(t, p, src, "C16", true)
}

var realChunked = []string{"handlers/memcached/chunked (handler, chunkedLimitedReader, keys, localComm, types, tokens)", "protocol/binprot (request writers, response header reader, pools)"}
var stubChunked = []string{"memcached backend (mcfake, key/item limits off)", "connection handler<->backend (simnet)", "clock (testing/synctest)", "crypto/rand (deterministic token stream)"}

func init() {
	register(&Prop{
		ID: "C04", Gen: genC04, Exec: execC04,
		Nontrivial: func(p Plan, r Result) bool {
			for _, s := range p.Steps {
				if s.Op != nil && len(s.Op.Data) >= payloadFor(len(s.Op.Key))-1 {
					return true
				}
			}
			return false
		},
		Rule:      "handler-level: the real chunked handler (1-2 handler instances on one backend) against a simulated memcached; seeded sequences of all nine commands over 1-2 keys with key lengths 1..250 (also keys ending in '-', '-0', '-meta' and pairs where one key looks like a derived key of the other), key slices with and without spare capacity, value lengths 0, 1, 2 and k*payload-1, k*payload, k*payload+1 for k=1..5 plus 12 and 37 chunks, arbitrary flags, TTL classes incl. absolute past and absolute more than 30 days ahead, clock steps, reply segmentation. Oracle: reference map (results, values, flags), every backend key touched is derived from the command's key, no backend entry shared by two client keys, nothing of a key readable after delete. There is no fault in this property; the simulator contributes the observation point (backend request log and contents), segmentation and the clock. Non-trivial = a value of at least one full chunk; distinct = distinct plan hash",
		Real:      realChunked,
		Stub:      stubChunked,
		RunsQuick: 5000, RunsThorough: 150000,
	})
	register(&Prop{
		ID: "C16", Gen: genC16, Exec: execC16, Enumerate: enumC16,
		Rule:       "standing monitor inside the simulated backend on every SET/ADD/REPLACE it receives from the real chunked handler: data entries of a key all have value length 1184-71-keylen, backend key + value + 67 <= 1184, metadata is 40 bytes; after each set the number of chunks written and recorded equals ceil(len/payload). Enumerated part: every key length 1..250 x value lengths {0, 1, payload-1, payload, payload+1, 2p-1, 2p, 2p+1, 3p, 6p-1, 6p, 6p+1} (+ 999p, 999p-1, 998p+1, 100p+1 for every key length in the thorough tier, for 36 key lengths in the quick tier), each set followed by a get. Twelve enumerated cases start from an item that is already in the backend in another chunk layout (data entries sized for a 2048- or a 944-byte slab): it must read back, and what append / prepend write must again have this key's own entry size and chunk count. Seeded part, one half: the C04 workload with the monitor on. Other half, overlap mode: 2-4 tasks, each with its own handler, backend connection and key (all key lengths different), 2-5 commands each (set/add/replace of 0-4 chunks, append, prepend, get, delete), interleaved by the kernel at backend-request and reply granularity while the backend refuses 0-4 requests (out of memory, busy, temporary failure, internal error, too large); the monitor sees every entry, a frame the backend cannot parse counts as an entry of the wrong length, a command that never returns is a hang, and at the end every metadata entry records ceil(length/payload) chunks of the payload size its key length dictates. Distinct = distinct plan hash",
		Real:       realChunked,
		Stub:       stubChunked,
		FaultKinds: []string{"status"},
		RunsQuick:  2000, RunsThorough: 60000,
	})
}
