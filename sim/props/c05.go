package props

import (
	"bytes"
	"fmt"
	"testing"

	"github.com/netflix/rend/handlers"
	"github.com/netflix/rend/handlers/memcached/chunked"

	"rendsim/kernel"
	"rendsim/wire"
)

// C05 — chunked reads are all-or-nothing.
//
// (a) loss enumeration: write a value of n chunks (optionally over a previous value
//     of another length), remove a subset of {metadata, chunk 0..n-1} from the
//     backend, read with get and gat.
// (b) interleavings: two writers and a reader on three handler connections to one
//     backend, same key; the kernel interleaves at backend-request granularity.
//
// Oracle: a read returns a miss or exactly one of the values some single set wrote
// in full, with that set's flags.

type fullWrite struct {
	data  []byte
	flags uint32
}

func checkRead(r HRes, writes []fullWrite) string {
	// an error is not a value, but hits delivered before it were (the orchestrators
	// forward them as they arrive): they are checked all the same
	for _, h := range r.Hits {
		ok := false
		for _, w := range writes {
			if bytes.Equal(h.Data, w.data) && h.Flags == w.flags {
				ok = true
				break
			}
		}
		if !ok {
			// describe what it looks like
			for _, w := range writes {
				if bytes.Equal(h.Data, w.data) {
					return fmt.Sprintf("read returned the bytes of one write with the flags (%d) of another (that write used %d)", h.Flags, w.flags)
				}
			}
			return fmt.Sprintf("read returned %d bytes %s flags %d, which no single set wrote (sets wrote lengths %v)", len(h.Data), short(h.Data), h.Flags, lensOf(writes))
		}
	}
	return ""
}

// withConcats extends the values that whole sets wrote by what appends and prepends can
// legitimately make of them: any of the sets' values with any selection of the run's
// append / prepend payloads applied in any order (each at most once, payloads are
// unique), keeping the flags of the set.
func withConcats(writes []fullWrite, mods []wire.Op) []fullWrite {
	out := append([]fullWrite{}, writes...)
	if len(mods) == 0 {
		return out
	}
	var rec func(cur fullWrite, used uint)
	rec = func(cur fullWrite, used uint) {
		for i, m := range mods {
			if used&(1<<uint(i)) != 0 {
				continue
			}
			var d []byte
			if m.Kind == "append" {
				d = append(append([]byte{}, cur.data...), m.Data...)
			} else {
				d = append(append([]byte{}, m.Data...), cur.data...)
			}
			nw := fullWrite{d, cur.flags}
			out = append(out, nw)
			rec(nw, used|1<<uint(i))
		}
	}
	for _, w := range writes {
		rec(w, 0)
	}
	return out
}

func lensOf(ws []fullWrite) []int {
	var l []int
	for _, w := range ws {
		l = append(l, len(w.data))
	}
	return l
}

// execC05Tokens: the per-write token is what keeps the chunks of two writes of one key
// apart; it has to differ between any two writes. Thousands of small writes through one
// handler, the token read from each metadata entry the backend received.
func execC05Tokens(t *testing.T, p Plan, src kernel.Source) Result {
	return inBubble(t, p.Seed, src, func(w *kernel.World, res *Result) {
		tier := w.AddTier("l1", "/sim/chunked.sock")
		tier.Fake.Limits = false
		h := chunked.NewHandler(w.DialBackend("l1", "h0"))
		seen := map[string]int{}
		n := int(p.X["n"])
		for i := 0; i < n; i++ {
			key := fmt.Sprintf("tk%d", i)
			r, ok := runTask(w, h, wire.Op{Kind: "set", Key: key, Data: []byte("v"), Opaque: uint32(i)}, false)
			if !ok || r.Err != nil || r.Panic != "" {
				res.Infra = fmt.Sprintf("write %d failed: ok=%v %s", i, ok, r)
				return
			}
			m := tier.Fake.Store.Peek(key + "-meta")
			if m == nil || len(m.Value) != 40 {
				res.Infra = fmt.Sprintf("write %d left no 40-byte metadata entry", i)
				return
			}
			tok := string(m.Value[24:40])
			if j, dup := seen[tok]; dup {
				res.V = &Violation{Prop: "C05", Rule: "token_reuse", Class: "token_reuse", Msg: fmt.Sprintf("write #%d carries the same 16-byte token as write #%d (%d writes apart): chunks of the two writes of one key could not be told apart, a read could mix them", i, j, i-j)}
				return
			}
			seen[tok] = i
		}
		res.probe("token_sweeps")
	})
}

func execC05(t *testing.T, p Plan, src kernel.Source) Result {
	if p.Mode == "interleave" {
		return execC05Interleave(t, p, src)
	}
	if p.Mode == "tokens" {
		return execC05Tokens(t, p, src)
	}
	return inBubble(t, p.Seed, src, func(w *kernel.World, res *Result) {
		w.LogEvents = p.X["log"] != 0
		tier := w.AddTier("l1", "/sim/chunked.sock")
		tier.Fake.Limits = false
		h := chunked.NewHandler(w.DialBackend("l1", "h0"))
		key := p.XS["key"]
		// a second, intact key: what is lost of one key must not change what a multi-key get
		// says about another
		other := "o" + key
		otherVal := fullWrite{data: bytes.Repeat([]byte("O"), 2*payloadFor(len(other))-3), flags: 31}
		if r, ok := runTask(w, h, wire.Op{Kind: "set", Key: other, Data: otherVal.data, Flags: otherVal.flags, Opaque: 5}, false); !ok || r.Err != nil || r.Panic != "" {
			res.Infra = fmt.Sprintf("set-up write of the second key failed: ok=%v %s", ok, r)
			return
		}
		var writes []fullWrite
		for i, st := range p.Steps {
			if st.Op == nil {
				continue
			}
			r, ok := runTask(w, h, *st.Op, false)
			if !ok || r.Err != nil || r.Panic != "" {
				res.Infra = fmt.Sprintf("set-up write %d failed: ok=%v %s", i, ok, r)
				return
			}
			writes = append(writes, fullWrite{st.Op.Data, st.Op.Flags})
		}
		// the fault: lose a subset of the backend entries of the last write
		mask := p.X["lose"]
		n := int(p.X["chunks"])
		var lost []string
		if mask&1 != 0 {
			tier.Fake.Store.Evict(key + "-meta")
			lost = append(lost, "meta")
		}
		for c := 0; c < n; c++ {
			if mask&(1<<(c+1)) != 0 {
				tier.Fake.Store.Evict(fmt.Sprintf("%s-%d", key, c))
				lost = append(lost, fmt.Sprintf("chunk%d", c))
			}
		}
		w.Stat.FaultsFired["entry_loss"] += len(lost)
		readKind := "get"
		if p.X["gat"] != 0 {
			readKind = "gat"
		}
		rd := wire.Op{Kind: readKind, Key: key, Keys: []string{key}, Quiets: []bool{false}, Opaque: 900, TTL: 100}
		if readKind == "get" {
			rd.Key = ""
		}
		r, ok := runTask(w, h, rd, false)
		class := fmt.Sprintf("%s/loss", readKind)
		where := fmt.Sprintf("%d-chunk value over %v earlier value length(s), lost %v", n, lensOf(writes[:len(writes)-1]), lost)
		if !ok {
			res.V = &Violation{Prop: "C05", Rule: "hang", Class: "hang:" + class, Msg: fmt.Sprintf("%s never returned (%s)", readKind, where)}
			return
		}
		if r.Panic != "" {
			res.V = &Violation{Prop: "C05", Rule: "panic", Class: "panic:" + class, Msg: fmt.Sprintf("%s panicked: %s (%s)", readKind, r.Panic, where)}
			return
		}
		if m := checkRead(r, writes); m != "" {
			res.V = &Violation{Prop: "C05", Rule: "torn", Class: "torn:" + class, Msg: fmt.Sprintf("%s: %s", where, m)}
			return
		}
		if len(r.Hits) > 0 {
			res.probe("read_hit")
		} else {
			res.probe("read_miss")
		}
		// a second read right after must obey the same rule (gat may have touched things)
		r2, ok := runTask(w, h, wire.Op{Kind: "get", Keys: []string{key}, Quiets: []bool{false}, Opaque: 901}, false)
		if !ok {
			res.V = &Violation{Prop: "C05", Rule: "hang", Class: "hang:get-after-" + class, Msg: fmt.Sprintf("the second read never returned (%s)", where)}
			return
		}
		if r2.Panic != "" {
			res.V = &Violation{Prop: "C05", Rule: "panic", Class: "panic:get-after-" + class, Msg: fmt.Sprintf("the second read panicked: %s (%s)", r2.Panic, where)}
			return
		}
		if m := checkRead(r2, writes); m != "" {
			res.V = &Violation{Prop: "C05", Rule: "torn", Class: "torn:get-after-" + class, Msg: fmt.Sprintf("second read, %s: %s", where, m)}
			return
		}
		// multi-key gets naming the damaged key and the intact one, in both orders: the intact
		// key is a hit with its own value, the damaged one obeys the rule above
		for oi, ks := range [][]string{{key, other}, {other, key}, {key, key, other}} {
			rm, ok := runTask(w, h, wire.Op{Kind: "get", Keys: ks, Quiets: make([]bool, len(ks)), Opaque: uint32(910 + 10*oi)}, false)
			if !ok || rm.Panic != "" {
				res.V = &Violation{Prop: "C05", Rule: "hang", Class: "hang:mget/" + class, Msg: fmt.Sprintf("multi-key get %v never returned / panicked (%s): %v", ks, where, rm)}
				return
			}
			gotOther := false
			for _, hv := range rm.Hits {
				if hv.Idx >= 0 && hv.Idx < len(ks) && ks[hv.Idx] == other {
					gotOther = true
					if m := checkRead(HRes{Hits: []ObsVal{hv}}, []fullWrite{otherVal}); m != "" {
						res.V = &Violation{Prop: "C05", Rule: "torn", Class: "torn:mget-other/" + class, Msg: fmt.Sprintf("multi-key get %v, intact key: %s (%s)", ks, m, where)}
						return
					}
				} else if m := checkRead(HRes{Hits: []ObsVal{hv}}, writes); m != "" {
					res.V = &Violation{Prop: "C05", Rule: "torn", Class: "torn:mget/" + class, Msg: fmt.Sprintf("multi-key get %v: %s (%s)", ks, m, where)}
					return
				}
			}
			if rm.Err == nil && !gotOther {
				res.V = &Violation{Prop: "C05", Rule: "collateral_miss", Class: "collateral_miss:" + class, Msg: fmt.Sprintf("multi-key get %v answered a miss for the intact key %q because entries of the other key were lost (%s)", ks, other, where)}
				return
			}
		}
		// when every write and the gat carried a lifetime, the key is nothing but a miss once
		// the longest of them has passed: an add must then succeed and be read back whole
		// (no remnant of the damaged value may linger and answer for the key)
		if ttl := p.X["ttl"]; ttl > 0 {
			w.Advance(secs(max(ttl, 100) + 2))
			fresh := fullWrite{data: []byte("fresh-after-expiry"), flags: 77}
			ra, ok := runTask(w, h, wire.Op{Kind: "add", Key: key, Data: fresh.data, Flags: fresh.flags, Opaque: 902}, false)
			if !ok || ra.Panic != "" {
				res.V = &Violation{Prop: "C05", Rule: "hang", Class: "hang:add-after-expiry/" + class, Msg: fmt.Sprintf("add after expiry never returned / panicked (%s): %v", where, ra)}
				return
			}
			if ra.Err != nil {
				res.V = &Violation{Prop: "C05", Rule: "remnant", Class: "remnant:" + class, Msg: fmt.Sprintf("%s; %d s later, after every lifetime given for the key had passed, add answered %v: something of the damaged value still answers for the key", where, max(ttl, 100)+2, ra.Err)}
				return
			}
			r3, ok := runTask(w, h, wire.Op{Kind: "get", Keys: []string{key}, Quiets: []bool{false}, Opaque: 903}, false)
			if !ok || r3.Panic != "" {
				res.V = &Violation{Prop: "C05", Rule: "hang", Class: "hang:get-after-add/" + class, Msg: fmt.Sprintf("get after expiry and add never returned / panicked (%s): %v", where, r3)}
				return
			}
			{
				if len(r3.Hits) != 1 {
					res.V = &Violation{Prop: "C05", Rule: "remnant", Class: "remnant:get-after-add/" + class, Msg: fmt.Sprintf("%s; after expiry add succeeded but the following get returned %d values", where, len(r3.Hits))}
					return
				}
				if m := checkRead(r3, []fullWrite{fresh}); m != "" {
					res.V = &Violation{Prop: "C05", Rule: "torn", Class: "torn:get-after-add/" + class, Msg: fmt.Sprintf("%s; after expiry and add: %s", where, m)}
				}
			}
		}
	})
}

// hTask is a handler call running on its own goroutine.
type hTask struct {
	h    handlers.Handler
	ops  []wire.Op
	next int
	busy bool
	res  HRes
	done chan struct{}
	name string
}

func execC05Interleave(t *testing.T, p Plan, src kernel.Source) Result {
	return inBubble(t, p.Seed, src, func(w *kernel.World, res *Result) {
		w.LogEvents = p.X["log"] != 0
		w.Interleave = true
		w.ProcAll = false
		w.SegMode = p.Seg
		tier := w.AddTier("l1", "/sim/chunked.sock")
		tier.Fake.Limits = false
		var tasks []*hTask
		var writes []fullWrite
		var mods []wire.Op
		for i, prog := range p.Progs {
			tasks = append(tasks, &hTask{h: chunked.NewHandler(w.DialBackend("l1", fmt.Sprintf("t%d", i))), ops: prog, name: fmt.Sprintf("t%d", i)})
			for _, op := range prog {
				if op.Kind == "set" {
					writes = append(writes, fullWrite{op.Data, op.Flags})
				}
				if op.Kind == "append" || op.Kind == "prepend" {
					mods = append(mods, op)
				}
			}
		}
		writes = withConcats(writes, mods)
		reads := 0
		for steps := 0; ; steps++ {
			w.Quiesce()
			if w.Overrun {
				res.Infra = "step budget exhausted"
				return
			}
			// collect finished calls
			for _, tk := range tasks {
				if !tk.busy {
					continue
				}
				select {
				case <-tk.done:
					tk.busy = false
					op := tk.ops[tk.next-1]
					if tk.res.Panic != "" {
						res.V = &Violation{Prop: "C05", Rule: "panic", Class: "panic:" + op.Kind + "/interleave", Msg: fmt.Sprintf("%s %s panicked: %s", tk.name, op, tk.res.Panic)}
						return
					}
					if op.Kind == "get" || op.Kind == "gat" {
						reads++
						if len(tk.res.Hits) > 0 {
							res.probe("read_hit")
						} else {
							res.probe("read_miss")
						}
						if m := checkRead(tk.res, writes); m != "" {
							res.V = &Violation{Prop: "C05", Rule: "torn", Class: "torn:" + op.Kind + "/interleave", Msg: fmt.Sprintf("%s %s while two sets of the key were interleaved: %s", tk.name, op, m)}
							return
						}
					}
				default:
				}
			}
			evs := w.Internal()
			for _, tk := range tasks {
				tk := tk
				if tk.busy || tk.next >= len(tk.ops) {
					continue
				}
				evs = append(evs, kernel.Event{Label: "start " + tk.name, Owner: tk.name, Do: func() {
					op := tk.ops[tk.next]
					tk.next++
					tk.busy = true
					tk.done = make(chan struct{})
					go func() {
						tk.res = hcall(tk.h, op, false)
						close(tk.done)
					}()
				}})
			}
			if len(evs) == 0 {
				for _, tk := range tasks {
					if tk.busy {
						res.V = &Violation{Prop: "C05", Rule: "hang", Class: "hang:interleave", Msg: fmt.Sprintf("%s %s never returned although the backend answered everything", tk.name, tk.ops[tk.next-1])}
						return
					}
				}
				return
			}
			evs[w.Ch.Choose(len(evs), "event")].Do()
		}
	})
}

func c05Value(g *gen, keylen, chunks int, exact bool) []byte {
	p := payloadFor(keylen)
	n := chunks * p
	if chunks > 0 && !exact {
		n = (chunks-1)*p + 1 + g.n(p-1)
	}
	return g.value(n)
}

// enumC05: every subset of {meta, chunk 0..n-1} for n <= 6 (quick: n <= 4 plus a
// sample of the larger ones), several key lengths, with and without an earlier
// value of another length, read by get and by gat.
func enumC05(tier string) []Plan {
	var out []Plan
	for i, n := range []int64{1200, 2600, 6000} {
		if tier != "thorough" && n > 3000 {
			continue
		}
		out = append(out, Plan{Prop: "C05", Seed: uint64(0xC05F00 + i), Mode: "tokens", X: map[string]int64{"n": n}})
	}
	id := 0
	keyLens := []int{1, 10, 100}
	maxN := 6
	for _, kl := range keyLens {
		for n := 0; n <= maxN; n++ {
			for _, prev := range []int{-1, 1, n + 2} { // -1: no earlier value
				if prev == n {
					continue
				}
				for mask := int64(1); mask < int64(1)<<(n+1); mask++ {
					for _, gat := range []int64{0, 1} {
						id++
						if tier != "thorough" {
							if n > 4 && id%4 != 0 {
								continue
							}
							if kl == 100 && id%2 != 0 {
								continue
							}
						}
						g := newGen(uint64(0xC05000 + id))
						key := string(bytes.Repeat([]byte("k"), kl))
						p := Plan{Prop: "C05", Seed: uint64(0xC05000 + id), X: map[string]int64{"lose": mask, "chunks": int64(n), "gat": gat}, XS: map[string]string{"key": key}}
						var ttl uint32
						if id%3 == 0 {
							// every write carries a lifetime: what remains after it has passed?
							ttl = 50
							p.X["ttl"] = 50
						}
						if prev >= 0 {
							op := wire.Op{Kind: "set", Key: key, Data: c05Value(g, kl, prev, g.p(1, 2)), Flags: 7, TTL: ttl, Opaque: 1}
							p.Steps = append(p.Steps, Step{Op: &op})
						}
						op := wire.Op{Kind: "set", Key: key, Data: c05Value(g, kl, n, g.p(1, 2)), Flags: 9, TTL: ttl, Opaque: 2}
						p.Steps = append(p.Steps, Step{Op: &op})
						out = append(out, p)
					}
				}
			}
		}
	}
	return out
}

func genC05(seed uint64, tier string) Plan {
	g := newGen(seed)
	kl := pick(g, []int{1, 5, 40, 200})
	key := string(bytes.Repeat([]byte("q"), kl))
	p := Plan{Prop: "C05", Seed: seed, Mode: "interleave", Seg: pick(g, []int{0, 0, 2}), XS: map[string]string{"key": key}}
	var opq uint32 = 10
	set := func(chunks int, flags uint32) wire.Op {
		opq += 10
		return wire.Op{Kind: "set", Key: key, Data: c05Value(g, kl, chunks, g.p(1, 2)), Flags: flags, Opaque: opq}
	}
	read := func() wire.Op {
		opq += 10
		if g.p(1, 3) {
			return wire.Op{Kind: "gat", Key: key, TTL: uint32(g.n(100)), Opaque: opq}
		}
		return wire.Op{Kind: "get", Keys: []string{key}, Quiets: []bool{false}, Opaque: opq}
	}
	// writer 1, writer 2 (different chunk counts), reader(s)
	n1, n2 := g.n(4), g.n(4)
	w1 := []wire.Op{set(n1, 1)}
	w2 := []wire.Op{set(n2, 2)}
	if g.p(1, 3) {
		w1 = append(w1, set(g.n(4), 3))
	}
	if g.p(1, 4) {
		w2 = append(w2, read())
	}
	rd := []wire.Op{read()}
	for i := 0; i < g.n(3); i++ {
		rd = append(rd, read())
	}
	p.Progs = [][]wire.Op{w1, w2, rd}
	if g.p(1, 3) {
		p.Progs = append(p.Progs, []wire.Op{read(), read()})
	}
	// a third of the runs: a task that appends or prepends to whatever it finds (a value
	// built on a torn base would be read back later), then reads
	if g.p(1, 3) {
		var prog []wire.Op
		for i := 0; i < 1+g.n(2); i++ {
			opq += 10
			prog = append(prog, wire.Op{Kind: pick(g, []string{"append", "prepend"}), Key: key, Data: g.value(8 + g.n(60)), Opaque: opq})
		}
		p.Progs = append(p.Progs, append(prog, read()))
		// ... and a reader that comes last in program order more often
		p.Progs[2] = append(p.Progs[2], read())
	}
	return p
}

func init() {
	register(&Prop{
		ID: "C05", Gen: genC05, Exec: execC05, Enumerate: enumC05, Level: "fault_enumeration",
		Rule:       "(0) token sweeps: 1200 and 2600 (thorough also 6000) writes through one handler, the 16-byte per-write token read from every metadata entry must never repeat. (a) fault = loss of backend entries. For key lengths {1, 10, 100}, n = 0..6 chunks, no earlier value / an earlier value of 1 chunk / of n+2 chunks, every non-empty subset of {metadata, chunk 0..n-1} is removed from the simulated backend and the key is read through the real chunked handler by get and by gat, then read again, then read together with a second, intact key by multi-key gets in both orders (the intact key must be a hit with its own value); in a third of the cases every write carries a lifetime, and after it (and the gat's) has passed an add must succeed and be read back whole (thorough: all 2^(n+1)-1 subsets for every n; quick: all for n <= 4, a quarter for n = 5, 6, half for key length 100). (b) seeded interleavings: two writer tasks (values of different chunk counts, unique contents, different flags) and one or two reader tasks, in a third of the runs also a task that appends / prepends 1-2 unique payloads and reads, each on its own handler + backend connection, same key; the kernel chooses among task starts, individual backend requests and reply segments. Oracle: every read returns a miss or exactly the bytes and flags of one single set (with appends / prepends in the run: of one single set with a selection of the payloads applied whole). Every case is non-trivial; distinct = distinct plan hash",
		Real:       realChunked,
		Stub:       stubChunked,
		FaultKinds: []string{"entry_loss"},
		RunsQuick:  4000, RunsThorough: 120000,
	})
}
