package props

import (
	"fmt"
	"math"
	"net/http"
	"net/http/httptest"
	"sort"
	"strconv"
	"strings"
	"testing"

	"github.com/netflix/rend/metrics"

	"rendsim/kernel"
	"rendsim/shadow/hub"
)

// C18 — metrics report what happened.
//
// interleave: K observer tasks and a reader task (the real /metrics handler through
//             http.DefaultServeMux) in one bubble; every atomic operation of an
//             observer and every lock operation of package metrics parks, so the
//             kernel interleaves at atomic-operation and lock granularity.
// bulk:       one observer, no yields, large multisets (1 .. 100k observations,
//             sizes around the 32768-entry ring buffer).
// buckets:    supplementary pure-input sweep (not simulation): bucket index read back
//             through the bhist_* counters against an independently generated table.

type c18Metrics struct {
	hist    [2]uint32 // [0] unsampled, [1] sampled
	counter [2]uint32
	names   [2]string
	cnames  [2]string
}

var c18m *c18Metrics

func c18Setup() *c18Metrics {
	if c18m == nil {
		m := &c18Metrics{}
		m.names = [2]string{"vsim_u", "vsim_s"}
		m.cnames = [2]string{"vsim_c0", "vsim_c1"}
		m.hist[0] = metrics.AddHistogram(m.names[0], false, nil)
		m.hist[1] = metrics.AddHistogram(m.names[1], true, nil)
		m.counter[0] = metrics.AddCounter(m.cnames[0], nil)
		m.counter[1] = metrics.AddCounter(m.cnames[1], nil)
		c18m = m
	}
	return c18m
}

// metricsSnapshot is the parsed output of /metrics restricted to the harness metrics.
type metricsSnapshot struct {
	ints   map[string]uint64  // "name|statistic" -> value ; bhist: "name|T0012"
	floats map[string]float64 // "name|average"
}

// c18Scrapes counts the scrapes made in this process: every scrape swaps the two ring
// buffers of every histogram.
var c18Scrapes int

// c18Serial makes the names of counters registered at run time unique in the process.
var c18Serial int

func readMetrics() metricsSnapshot {
	c18Scrapes++
	rec := httptest.NewRecorder()
	req := httptest.NewRequest("GET", "/metrics", nil)
	http.DefaultServeMux.ServeHTTP(rec, req)
	snap := metricsSnapshot{ints: map[string]uint64{}, floats: map[string]float64{}}
	for _, line := range strings.Split(rec.Body.String(), "\n") {
		if !strings.Contains(line, "vsim_") {
			continue
		}
		sp := strings.LastIndexByte(line, ' ')
		if sp < 0 {
			continue
		}
		head, val := line[:sp], line[sp+1:]
		parts := strings.Split(head, "|")
		name := parts[0]
		if i := strings.Index(name, "bhist_vsim"); i >= 0 {
			name = name[i:]
		} else if i := strings.Index(name, "hist_vsim"); i >= 0 {
			name = name[i:]
		} else if i := strings.Index(name, "vsim_c"); i >= 0 {
			name = name[i:]
		}
		stat, isFloat := "", false
		for _, t := range parts[1:] {
			kv := strings.SplitN(t, "*", 2)
			if len(kv) != 2 {
				continue
			}
			switch kv[0] {
			case "statistic", "percentile":
				stat = kv[1]
			case "dataType":
				isFloat = kv[1] == "float64"
			}
		}
		if isFloat {
			f, _ := strconv.ParseFloat(val, 64)
			snap.floats[name+"|"+stat] = f
		} else {
			u, _ := strconv.ParseUint(val, 10, 64)
			snap.ints[name+"|"+stat] = u
		}
	}
	return snap
}

var pctlNames = func() []string {
	var n []string
	for i := 0; i <= 20; i++ {
		n = append(n, fmt.Sprintf("percentile%d", i*5))
	}
	return append(n, "percentile99", "percentile99.9")
}()

// checkPeriod compares what one read reports for a histogram with the observations
// of that period.
func checkPeriod(snap metricsSnapshot, hname string, sampled bool, obs []uint64) string {
	name := "hist_" + hname
	count, ok := snap.ints[name+"|count"]
	if !ok {
		return "the read does not report the histogram's count"
	}
	if count != uint64(len(obs)) {
		return fmt.Sprintf("reported count %d, %d observations were made in the period", count, len(obs))
	}
	if len(obs) == 0 {
		return ""
	}
	minV, maxV, sum := uint64(math.MaxUint64), uint64(0), uint64(0)
	set := map[uint64]bool{}
	for _, v := range obs {
		if v < minV {
			minV = v
		}
		if v > maxV {
			maxV = v
		}
		sum += v
		set[v] = true
	}
	kept := snap.ints[name+"|kept"]
	if !sampled && kept != count {
		return fmt.Sprintf("unsampled histogram reports kept %d for count %d", kept, count)
	}
	if sampled && kept > count {
		return fmt.Sprintf("sampled histogram reports kept %d > count %d", kept, count)
	}
	if avg, ok := snap.floats[name+"|average"]; ok {
		want := float64(sum) / float64(len(obs))
		if math.Abs(avg-want) > 1e-6*math.Max(1, want) {
			return fmt.Sprintf("reported average %f, observations average %f", avg, want)
		}
	}
	if got := snap.ints[name+"|percentile0"]; got != minV {
		return fmt.Sprintf("reported min (percentile0) %d, smallest observation %d", got, minV)
	}
	if got := snap.ints[name+"|percentile100"]; got != maxV {
		return fmt.Sprintf("reported max (percentile100) %d, largest observation %d", got, maxV)
	}
	if kept == 0 {
		return "" // a sampled histogram that kept nothing reports no inner percentiles
	}
	for _, pn := range pctlNames {
		v, ok := snap.ints[name+"|"+pn]
		if !ok {
			return "the read does not report " + pn
		}
		if v < minV || v > maxV {
			return fmt.Sprintf("%s = %d lies outside [min %d, max %d] of the period (%d observations, kept %d)", pn, v, minV, maxV, len(obs), kept)
		}
		if !set[v] {
			return fmt.Sprintf("%s = %d is not one of the period's %d observations (kept %d)", pn, v, len(obs), kept)
		}
	}
	return ""
}

func execC18(t *testing.T, p Plan, src kernel.Source) Result {
	switch p.Mode {
	case "bulk":
		return execC18Bulk(t, p, src)
	case "buckets":
		return execC18Buckets(t, p, src)
	}
	return inBubble(t, p.Seed, src, func(w *kernel.World, res *Result) {
		m := c18Setup()
		hi := int(p.X["sampled"])
		viol := func(rule, class, format string, a ...interface{}) {
			if res.V == nil {
				res.V = &Violation{Prop: "C18", Rule: rule, Class: rule + ":" + class, Msg: fmt.Sprintf(format, a...)}
			}
		}
		// The histogram is process-global state that outlives a run: which of its two ring
		// buffers is the live one, and what earlier runs left in them. Correct code never
		// reads the leftovers, broken code may - and a violation that depends on what earlier
		// runs of this worker did would not replay in a fresh process. So which buffer is
		// live when the run starts is part of the plan, and the runs that fill a whole buffer
		// first overwrite both buffers with zeros. (A scrape costs ~10 ms - it prints some
		// 15 000 lines - so the scrubbing is not done in every run.)
		prefillLock := ""
		if p.X["prefill"] > 0 {
			for round := 0; round < 2; round++ {
				for i := 0; i < 32768; i++ {
					metrics.ObserveHist(m.hist[hi], 0)
					if prefillLock == "" {
						// the first lock used in this run is the harness histogram's
						prefillLock = fmt.Sprintf("L%d", w.Run.LastID("lock"))
					}
				}
				readMetrics()
			}
		}
		if int64(c18Scrapes+1)%2 != p.X["parity"] {
			readMetrics()
		}
		// start a fresh period and take the counters' baseline (unmanaged: no run flags yet)
		base := readMetrics()
		// optional prefill: the first period already holds about one ring buffer of large
		// observations when the tasks start (buffer boundaries meet interleavings)
		var prefill []uint64
		for i := int64(0); i < p.X["prefill"]; i++ {
			v := uint64(1000000 + i)
			prefill = append(prefill, v)
			metrics.ObserveHist(m.hist[hi], v)
		}
		w.Run.ManagePkgs = []string{"/metrics"}
		// half of the runs interleave at atomic-operation granularity, the other half only
		// at lock granularity (an observation is then two scheduling points, which makes
		// "a whole observation between the reader's unlock and its next step" likely)
		w.Run.YieldAtomics = p.X["coarse"] == 0
		w.Run.YieldPrefix = "obs"
		w.Run.YieldAfterUnlock = true
		type task struct {
			name string
			vals []uint64 // observations (interleaved with counter increments of the same amount)
			busy bool
			done chan struct{}
			snap metricsSnapshot
			next int
			// dynamic counter of an observer task
			dynName    string
			dynID      uint32
			registered bool
		}
		dyn := p.X["dyncounters"] != 0
		c18Serial++
		var obsTasks []*task
		for i, vs := range p.XV {
			obsTasks = append(obsTasks, &task{name: fmt.Sprintf("obs%d", i), vals: vs, dynName: fmt.Sprintf("vsim_cdyn_%d_%d", c18Serial, i)})
		}
		// one or two scraping tasks: /metrics may be fetched by more than one collector at once
		nreaders := 1
		if p.X["readers"] > 1 {
			nreaders = int(p.X["readers"])
		}
		var readers []*task
		readsLeft := map[*task]int{}
		snapsOf := map[string][]metricsSnapshot{}
		for i := 0; i < nreaders; i++ {
			r := &task{name: fmt.Sprintf("reader%d", i)}
			readers = append(readers, r)
			readsLeft[r] = int(p.X["reads"])
		}
		var incSum uint64
		lastOwner := ""
		scriptPhase := 0
		if p.X["script"] != 0 && prefillLock != "" {
			scriptPhase = 1
		}
		obsLocks := map[string]bool{}
		if prefillLock != "" {
			// in prefilled runs the readers' steps on the harness histogram are always choices
			obsLocks[prefillLock] = true
		}
		startObs := func(tk *task) {
			v := tk.vals[tk.next]
			tk.next++
			tk.busy = true
			tk.done = make(chan struct{})
			incSum += v
			go func() {
				w.Run.NameGoroutine(tk.name)
				if dyn && !tk.registered {
					// the task registers a counter of its own first (registration by several
					// goroutines at once), then counts on it
					tk.registered = true
					tk.dynID = metrics.AddCounter(tk.dynName, nil)
				}
				metrics.ObserveHist(m.hist[hi], v)
				metrics.IncCounterBy(m.counter[0], v)
				metrics.IncCounter(m.counter[1])
				if dyn {
					metrics.IncCounterBy(tk.dynID, v&0xffff)
				}
				close(tk.done)
			}()
		}
		for {
			w.Quiesce()
			if w.Overrun {
				res.Infra = "step budget exhausted"
				return
			}
			for _, tk := range append(append([]*task{}, obsTasks...), readers...) {
				if tk.busy {
					select {
					case <-tk.done:
						tk.busy = false
						if strings.HasPrefix(tk.name, "reader") {
							snapsOf[tk.name] = append(snapsOf[tk.name], tk.snap)
						}
					default:
					}
				}
			}
			evs := w.Internal()
			// Reduction: a scrape walks every histogram registered in the process (about
			// fifty), two scheduling points each. A reader's step on a lock that no observer
			// has used in this run commutes with everything the other tasks can do, so it is
			// taken at once instead of being offered as a choice; what is left to choose is
			// the order around the harness histogram, where observers and readers meet.
			for _, ev := range evs {
				if strings.HasPrefix(ev.Owner, "obs") && ev.Obj != "" {
					obsLocks[ev.Obj] = true
				}
			}
			auto := false
			for _, ev := range evs {
				if strings.HasPrefix(ev.Owner, "reader") && ev.Obj != "" && !obsLocks[ev.Obj] {
					ev.Do()
					auto = true
					break
				}
			}
			if auto {
				continue
			}
			for _, tk := range obsTasks {
				tk := tk
				if !tk.busy && tk.next < len(tk.vals) {
					evs = append(evs, kernel.Event{Label: "observe " + tk.name, Owner: tk.name, Do: func() { startObs(tk) }})
				}
			}
			for _, reader := range readers {
				reader := reader
				if !reader.busy && readsLeft[reader] > 0 {
					evs = append(evs, kernel.Event{Label: "read " + reader.name, Owner: reader.name, Do: func() {
						readsLeft[reader]--
						reader.busy = true
						reader.done = make(chan struct{})
						go func() {
							w.Run.NameGoroutine(reader.name)
							reader.snap = readMetrics()
							close(reader.done)
						}()
					}})
				}
			}
			if len(evs) == 0 {
				stuck := false
				for _, tk := range append(append([]*task{}, obsTasks...), readers...) {
					if tk.busy {
						stuck = true
					}
				}
				if stuck {
					viol("hang", "interleave", "observers / reader blocked forever")
					return
				}
				break
			}
			// scripted boundary schedule: drive reader0 until it has handed back the harness
			// histogram's lock (extraction done, sort not yet), then let the observers make
			// X["script_k"] whole observations, then go on as usual
			pickI := -1
			if scriptPhase == 1 {
				window := false
				for i, ev := range evs {
					if ev.Owner == "reader0" && ev.Kind == "after-unlock" && ev.Obj == prefillLock {
						window = true
					}
					if pickI < 0 && ev.Owner == "reader0" {
						pickI = i
					}
				}
				if window || pickI < 0 {
					scriptPhase, pickI = 2, -1
				}
			}
			if scriptPhase == 2 {
				made := 0
				busy := false
				for _, tk := range obsTasks {
					made += tk.next
					busy = busy || tk.busy
				}
				if made >= int(p.X["script_k"]) && !busy {
					scriptPhase = 3
				} else {
					for i, ev := range evs {
						if strings.HasPrefix(ev.Owner, "obs") && (busy || made < int(p.X["script_k"]) || !strings.HasPrefix(ev.Label, "observe")) {
							pickI = i
							break
						}
					}
					if pickI < 0 {
						scriptPhase = 3
					}
				}
			}
			// sticky policy: with probability 3/4 keep serving the task served last
			if pickI < 0 && lastOwner != "" && !w.Ch.Bool(1, 4, "switch") {
				for i, ev := range evs {
					if ev.Owner == lastOwner {
						pickI = i
						break
					}
				}
			}
			if pickI < 0 {
				pickI = w.Ch.Choose(len(evs), "event")
			}
			lastOwner = evs[pickI].Owner
			evs[pickI].Do()
		}
		// final read closes the last period
		lockLog := append([]hub.LockEvent(nil), w.Run.LockLog...)
		w.Run.ManagePkgs, w.Run.YieldAtomics, w.Run.YieldAfterUnlock = nil, false, false
		final := readMetrics()
		// periods from the lock log of the harness histogram's lock
		histLock := ""
		for _, e := range lockLog {
			if strings.HasPrefix(e.Who, "obs") && e.Op == "rlock" {
				histLock = e.Lock
				break
			}
		}
		// a period ends when a scrape takes the histogram's write lock; the scrape that took
		// it is the one that must report the period
		periods := [][]uint64{append([]uint64{}, prefill...)}
		var snaps []metricsSnapshot
		readIdx := map[string]int{}
		seen := map[string]int{}
		valsOf := map[string][]uint64{}
		for _, tk := range obsTasks {
			valsOf[tk.name] = tk.vals
		}
		for _, e := range lockLog {
			if e.Lock != histLock {
				continue
			}
			switch {
			case e.Op == "rlock" && strings.HasPrefix(e.Who, "obs"):
				v := valsOf[e.Who][seen[e.Who]]
				seen[e.Who]++
				periods[len(periods)-1] = append(periods[len(periods)-1], v)
			case e.Op == "lock" && strings.HasPrefix(e.Who, "reader"):
				if readIdx[e.Who] >= len(snapsOf[e.Who]) {
					res.Infra = fmt.Sprintf("period bookkeeping: %s took the histogram lock %d times in %d reads", e.Who, readIdx[e.Who]+1, len(snapsOf[e.Who]))
					return
				}
				snaps = append(snaps, snapsOf[e.Who][readIdx[e.Who]])
				readIdx[e.Who]++
				periods = append(periods, []uint64{})
			}
		}
		if histLock == "" && len(prefill) > 0 {
			res.Infra = "period bookkeeping: prefilled run without observer"
			return
		}
		if histLock == "" {
			// no observation was made: every read reports an empty period
			for _, r := range readers {
				snaps = append(snaps, snapsOf[r.name]...)
			}
			periods = make([][]uint64, len(snaps)+1)
		}
		snaps = append(snaps, final)
		if len(periods) != len(snaps) {
			res.Infra = fmt.Sprintf("period bookkeeping: %d periods from the lock log, %d reads", len(periods), len(snaps))
			return
		}
		class := "unsampled"
		if hi == 1 {
			class = "sampled"
		}
		total := 0
		for i, s := range snaps {
			total += len(periods[i])
			if msg := checkPeriod(s, m.names[hi], hi == 1, periods[i]); msg != "" {
				viol("period", class, "read #%d (period of %d observations %v): %s", i, len(periods[i]), shortVals(periods[i]), msg)
				return
			}
		}
		// counters: the final value equals the sum of all increments
		want0 := base.ints[m.cnames[0]+"|"] + incSum
		if got := final.ints[m.cnames[0]+"|"]; got != want0 {
			viol("counter", "sum", "counter incremented by a total of %d reports %d more than before", incSum, got-base.ints[m.cnames[0]+"|"])
			return
		}
		nobs := 0
		for _, tk := range obsTasks {
			nobs += len(tk.vals)
		}
		if got := final.ints[m.cnames[1]+"|"] - base.ints[m.cnames[1]+"|"]; got != uint64(nobs) {
			viol("counter", "count", "counter incremented %d times reports %d", nobs, got)
			return
		}
		// counters registered by the tasks themselves: each under its own name with its own sum
		if dyn {
			for _, tk := range obsTasks {
				var want uint64
				for _, v := range tk.vals {
					want += v & 0xffff
				}
				got, ok := final.ints[tk.dynName+"|"]
				if !ok {
					viol("counter", "registered", "the counter %s that task %s registered and incremented %d times is not reported at all", tk.dynName, tk.name, len(tk.vals))
					return
				}
				if got != want {
					viol("counter", "registered", "the counter that task %s registered was incremented by a total of %d and is reported as %d", tk.name, want, got)
					return
				}
			}
		}
		// mid-run reads never report more than has been started
		for i, s := range snaps {
			if s.ints[m.cnames[1]+"|"]-base.ints[m.cnames[1]+"|"] > uint64(nobs) {
				viol("counter", "overshoot", "read #%d reports more increments than were made", i)
				return
			}
		}
		res.probe(fmt.Sprintf("reads_%d", len(snaps)))
	})
}

func shortVals(v []uint64) string {
	if len(v) > 12 {
		return fmt.Sprintf("%v...", v[:12])
	}
	return fmt.Sprint(v)
}

func execC18Bulk(t *testing.T, p Plan, src kernel.Source) Result {
	return inBubble(t, p.Seed, src, func(w *kernel.World, res *Result) {
		m := c18Setup()
		hi := int(p.X["sampled"])
		readMetrics() // fresh period
		g := newGen(p.Seed)
		var periods [][]uint64
		for _, n := range p.XV[0] {
			var obs []uint64
			for i := uint64(0); i < n; i++ {
				var v uint64
				switch p.X["dist"] {
				case 0:
					v = uint64(g.n(1000))
				case 1:
					v = g.r.Uint64() >> uint(g.n(64))
				case 4:
					// a constant first period, then a two-point distribution around that constant:
					// a leftover of the first period would sit exactly on the median rank
					switch len(periods) {
					case 0:
						v = 500
					case 1:
						v = 7
					default:
						v = 900
						if i < (n+1)/2 {
							v = 100
						}
					}
				case 3:
					// a range of its own per period: a value left over from another period
					// cannot pass for one of this period's
					v = uint64(len(periods)+1)*100000 + i%5000
				default:
					v = 5 + i
				}
				metrics.ObserveHist(m.hist[hi], v)
				obs = append(obs, v)
			}
			periods = append(periods, obs)
			snap := readMetrics()
			// with more observations than the ring holds, percentiles come from the most recent ones
			check := obs
			class := fmt.Sprintf("bulk/%d", n)
			if msg := checkPeriod(snap, m.names[hi], hi == 1, check); msg != "" {
				res.V = &Violation{Prop: "C18", Rule: "period", Class: "period:" + class, Msg: fmt.Sprintf("period of %d observations: %s", n, msg)}
				return
			}
		}
		res.probe("bulk_periods")
	})
}

// spectatorBuckets regenerates the bucket upper bounds from the published
// algorithm of Netflix Spectator's PercentileBuckets (not from rend's table).
func spectatorBuckets() []uint64 {
	// PercentileBuckets: values 1, 2, 3, then for every power of 4 the power itself and
	// eight further steps of a third of it, in (wrapping) 64-bit signed arithmetic as
	// the Java original, then Long.MAX_VALUE.
	vals := []uint64{1, 2, 3}
	for exp := uint(2); exp < 64; exp += 2 {
		cur := int64(1) << exp
		delta := cur / 3
		next := (cur << 2) - delta
		for cur < next {
			vals = append(vals, uint64(cur))
			cur += delta
		}
	}
	return append(vals, math.MaxInt64)
}

func execC18Buckets(t *testing.T, p Plan, src kernel.Source) Result {
	return inBubble(t, p.Seed, src, func(w *kernel.World, res *Result) {
		m := c18Setup()
		bounds := spectatorBuckets()
		prev := readMetrics()
		vals := append([]uint64(nil), p.XV[0]...)
		sort.Slice(vals, func(i, j int) bool { return vals[i] < vals[j] })
		lastBucket := -1
		name := "bhist_" + m.names[0]
		for _, v := range vals {
			metrics.ObserveHist(m.hist[0], v)
			cur := readMetrics()
			bucket, n := -1, 0
			for k, c := range cur.ints {
				if strings.HasPrefix(k, name+"|T") && c != prev.ints[k] {
					idx, _ := strconv.ParseInt(k[len(name)+2:], 16, 32)
					bucket = int(idx)
					n += int(c - prev.ints[k])
				}
			}
			prev = cur
			viol := func(rule, format string, a ...interface{}) {
				res.V = &Violation{Prop: "C18", Rule: rule, Class: rule, Msg: fmt.Sprintf(format, a...)}
			}
			if n != 1 {
				viol("bucket_count", "observing %d changed %d bucket counters by a total of %d", v, n, n)
				return
			}
			if bucket < lastBucket {
				viol("bucket_monotonic", "value %d is counted in bucket %d, a smaller value in bucket %d", v, bucket, lastBucket)
				return
			}
			lastBucket = bucket
			if bucket >= len(bounds) {
				viol("bucket_bound", "value %d is counted in bucket %d, beyond the %d published buckets", v, bucket, len(bounds))
				return
			}
			if bounds[bucket] < v {
				viol("bucket_bound", "value %d is counted in bucket %d whose published upper bound is %d", v, bucket, bounds[bucket])
				return
			}
		}
		res.probe("bucket_values_checked")
	})
}

// enumC18: boundary schedules. The first period holds 32767 / 32768 / 32769 / 40000
// observations (the ring buffer holds 32768), on either of the two buffers, sampled or
// not; a scrape is driven to the point where it has extracted the period and not yet
// sorted it, one or two whole observations of the next period are made there, the scrape
// finishes, more observations follow, and a second scrape reports the small period.
func enumC18(tier string) []Plan {
	var out []Plan
	id := 0
	for _, n := range []int64{32767, 32768, 32769, 40000} {
		for hi := int64(0); hi < 2; hi++ {
			for parity := int64(0); parity < 2; parity++ {
				for k := int64(1); k <= 2; k++ {
					id++
					g := newGen(uint64(0xC18000 + id))
					var vs []uint64
					for i := 0; i < int(k)+1+g.n(3); i++ {
						vs = append(vs, uint64(1+g.n(900)))
					}
					out = append(out, Plan{Prop: "C18", Seed: uint64(0xC18000 + id), XV: [][]uint64{vs},
						X: map[string]int64{"sampled": hi, "prefill": n, "parity": parity, "script": 1, "script_k": k, "reads": 2, "coarse": int64(id % 2)}})
				}
			}
		}
	}
	// boundary sequences without concurrency: three periods around the ring buffer's size
	// on alternating buffers (the third period gets the first one's buffer back), every
	// period with a value range of its own
	for _, a := range []uint64{32768, 32769, 40000} {
		for _, b := range []uint64{1, 32767} {
			for _, c := range []uint64{32767, 32768} {
				id++
				out = append(out, Plan{Prop: "C18", Seed: uint64(0xC18100 + id), Mode: "bulk", XV: [][]uint64{{a, b, c}},
					X: map[string]int64{"sampled": 0, "dist": 3}})
				out = append(out, Plan{Prop: "C18", Seed: uint64(0xC18200 + id), Mode: "bulk", XV: [][]uint64{{a, b, c}},
					X: map[string]int64{"sampled": 0, "dist": 4}})
			}
		}
	}
	return out
}

func genC18(seed uint64, tier string) Plan {
	g := newGen(seed)
	p := Plan{Prop: "C18", Seed: seed, X: map[string]int64{"sampled": int64(g.n(2))}}
	val := func() uint64 {
		switch g.n(6) {
		case 0:
			return uint64(g.n(20))
		case 1:
			return 1 << uint(g.n(63))
		case 2:
			return (1 << uint(g.n(63))) - 1
		case 3:
			return math.MaxInt64
		}
		return g.r.Uint64() >> uint(1+g.n(63))
	}
	switch g.n(10) {
	case 0, 1:
		p.Mode = "bulk"
		p.X["dist"] = int64(g.n(3))
		sizes := []uint64{1, 2, 3, 32767, 32768, 32769}
		if tier == "thorough" {
			sizes = append(sizes, 65536, 65537, 100000)
		}
		var ns []uint64
		for i := 0; i < 1+g.n(3); i++ {
			ns = append(ns, pick(g, sizes))
		}
		if g.p(1, 2) {
			ns = []uint64{uint64(1 + g.n(40))}
		}
		p.XV = [][]uint64{ns}
	case 2:
		p.Mode = "buckets"
		var vs []uint64
		for i := 0; i < 6; i++ {
			k := uint(g.n(63))
			base := uint64(1) << k
			vs = append(vs, base-1, base, base+1, base+base/3, base+base/3-1, base+base/3+1, base+2*(base/3), val())
		}
		vs = append(vs, pick(g, []uint64{0, 1, 15, 16, 17}), pick(g, []uint64{math.MaxInt64, math.MaxInt64 - 1, 1 << 62, 1<<62 + 1}))
		p.XV = [][]uint64{vs}
	default:
		nobs := pick(g, []int{1, 1, 2, 3, 4})
		for i := 0; i < nobs; i++ {
			var vs []uint64
			for j := 0; j < 1+g.n(4); j++ {
				vs = append(vs, val())
			}
			p.XV = append(p.XV, vs)
		}
		p.X["reads"] = int64(g.n(4))
		p.X["coarse"] = int64(g.n(2))
		p.X["parity"] = int64(g.n(2))
		if len(p.XV) >= 2 && g.p(1, 3) {
			p.X["dyncounters"] = 1
		}
		if g.p(1, 10) {
			// the first period starts with a ring buffer's worth of observations
			p.X["prefill"] = int64(pick(g, []int{32767, 32768, 32768, 32769, 40000}))
			p.X["reads"] = 2
			if len(p.XV) > 2 {
				p.XV = p.XV[:2]
			}
		}
		if g.p(1, 3) {
			// two collectors scraping at once
			p.X["readers"] = 2
			p.X["reads"] = int64(1 + g.n(2))
		}
	}
	return p
}

func init() {
	register(&Prop{
		ID: "C18", Gen: genC18, Exec: execC18, Enumerate: enumC18,
		Nontrivial: func(p Plan, r Result) bool { return true },
		Rule:       "70% interleave runs: 1-4 observer tasks (1-4 observations each: small values, powers of two and neighbours, 2^63-1, random magnitudes; each followed by IncCounterBy(value) and IncCounter) and one reader task (two in a third of the runs, i.e. overlapping scrapes) calling the real /metrics handler 0-3 times; every atomic operation of an observer and every lock operation of package metrics parks and is released by the kernel, so observers and the reader interleave at atomic-operation and lock granularity. In a tenth of the interleave runs the first period is prefilled with 32767-40000 large observations (the ring buffer's size and its neighbours) before the tasks start; an enumerated family of 24 three-period sequences (32768 / 32769 / 40000, then 1 / 32767, then 32767 / 32768 observations; once with a value range of its own per period, once with a constant first period and a two-point distribution around that constant in the third; no concurrency) and an enumerated family of 32 boundary schedules does the same with a scripted schedule (the scrape is driven to the point between extracting and sorting the full period, one or two whole observations of the next period are made there, then the run continues randomly) for every combination of prefill size, sampled or not, and which of the two buffers is live. Periods are reconstructed from the lock log (an observation belongs to the read - of whichever reader - that next takes the histogram's write lock). Per read: count = observations of the period, kept consistent, average, min and max equal, every percentile within [min,max] and one of the period's observations; counters equal the sum / number of increments; in a third of the runs with two or more observers every observer first registers a counter of its own (concurrent registration) and counts on it: it must be reported under its own name with its own sum. 20% bulk runs (no yields): 1..40 or {1,2,3,32767,32768,32769} (thorough also 65536, 65537, 100000) observations per period, several periods, three value distributions. 10% supplementary pure-input sweep (not simulation): bucket index read back through the bhist_* counters is non-decreasing in the value and its upper bound, from a table regenerated from the published Spectator algorithm, is >= the value. Not claimed: asm vs portable bit count; literal data-race freedom. Distinct = distinct plan hash",
		Real:       []string{"metrics (counters, histograms, bucket histograms, /metrics endpoint via http.DefaultServeMux)"},
		Stub:       []string{"sync/atomic and sync.RWMutex of package metrics (yield points owned by the kernel)", "observer and reader tasks", "HTTP transport (httptest.ResponseRecorder)"},
		RaceTest:   "TestRaceMetrics",
		RunsQuick:  1800, RunsThorough: 18000, Chunk: 300,
	})
}
