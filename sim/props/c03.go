package props

import (
	"fmt"
	"testing"

	"rendsim/kernel"
	"rendsim/shadow/hub"
	"rendsim/stack"
	"rendsim/wire"
)

// C03 — under the locking wrapper concurrent commands on one key are atomic.

type c03Out struct {
	hist    []*HistOp
	lockLog []hub.LockEvent
}

// runC03Once executes the concurrent program under one schedule.
func runC03Once(t *testing.T, p Plan, src kernel.Source) (Result, c03Out) {
	var out c03Out
	res := inBubble(t, p.Seed, src, func(w *kernel.World, res *Result) {
		w.SegMode = 0
		w.LogEvents = p.X["log"] != 0
		w.Run.ManagePkgs = []string{"/orcas"}
		d := stack.Build(w, p.Cfg, nil)
		e := &concEnv{plan: p, w: w, d: d, res: res}
		for _, cs := range p.Conns {
			e.conns = append(e.conns, w.Connect(cs.Port))
			if !w.Settle() {
				res.Infra = "step budget exhausted while connecting"
				return
			}
		}
		e.next = make([]int, len(e.conns))
		e.cur = make([]*HistOp, len(e.conns))
		// sequential prelude (part of the history): commands on a connection of their own and
		// L1 evictions, to start the concurrent phase from a state such as "in L2 only"
		if len(p.Steps) > 0 {
			pre := map[string]*kernel.ClientConn{}
			for _, st := range p.Steps {
				if st.Evict != nil {
					for _, k := range st.Evict {
						d.L1.Fake.Store.Evict(k)
					}
					continue
				}
				if st.Op == nil {
					continue
				}
				port := "main"
				if st.Conn == 1 && p.Cfg.Shape == "l1l2batch" {
					port = "batch"
				}
				pc := pre[port]
				if pc == nil {
					pc = w.Connect(port)
					w.Settle()
					pre[port] = pc
				}
				h := &HistOp{Conn: len(e.conns) + 1, Op: *st.Op, Call: e.tick()}
				w.Send(pc, wire.EncodeBinary(*st.Op))
				h.Reply = append([]byte(nil), pc.Unread()...)
				pc.Consume(len(h.Reply))
				h.Obs = decodeReply("bin", *st.Op, h.Reply, false)
				h.Ret = e.tick()
				e.hist = append(e.hist, h)
			}
		}
		w.SegMode = p.Seg
		ok, why := e.run()
		if !ok {
			res.V = &Violation{Prop: p.Prop, Rule: "hang", Step: len(e.hist), Class: "hang", Msg: why}
			out.hist = e.hist
			return
		}
		// final reads on a fresh connection (sequential): what the clients see in the end
		w.SegMode = 0
		fin := w.Connect("main")
		w.Settle()
		keys := map[string]bool{}
		for _, prog := range p.Progs {
			for _, op := range prog {
				if op.Key != "" {
					keys[op.Key] = true
				}
				for _, k := range op.Keys {
					keys[k] = true
				}
			}
		}
		for _, k := range sortedKeys(keys) {
			op := wire.Op{Kind: "get", Keys: []string{k}, Quiets: []bool{false}}
			h := &HistOp{Conn: len(e.conns), Op: op, Call: e.tick()}
			w.Send(fin, wire.EncodeText(op))
			h.Reply = append([]byte(nil), fin.Unread()...)
			fin.Consume(len(h.Reply))
			h.Obs = decodeReply("text", op, h.Reply, false)
			h.Ret = e.tick()
			e.hist = append(e.hist, h)
		}
		out.hist = e.hist
		out.lockLog = append([]hub.LockEvent(nil), w.Run.LockLog...)
		// L1 holds no entry that differs from L2's
		if p.Cfg.HasL2() {
			l1 := tierView(d.L1, p.Cfg.L1)
			l2 := tierView(d.L2, p.Cfg.L2)
			for _, k := range sortedKeysT(l1) {
				a := l1[k]
				b, ok := l2[k]
				if !ok {
					res.V = &Violation{Prop: p.Prop, Rule: "l1_not_in_l2", Step: len(e.hist), Class: "l1_not_in_l2", Msg: fmt.Sprintf("when all commands had completed L1 held %q = %s but L2 did not; history: %s", k, short(a.Value), describeHist(e.hist))}
					return
				}
				if string(a.Value) != string(b.Value) || a.Flags != b.Flags {
					res.V = &Violation{Prop: p.Prop, Rule: "l1_differs_l2", Step: len(e.hist), Class: "l1_differs_l2", Msg: fmt.Sprintf("when all commands had completed L1 held %q = %s flags %d, L2 held %s flags %d; history: %s", k, short(a.Value), a.Flags, short(b.Value), b.Flags, describeHist(e.hist))}
					return
				}
				// ... nor one that outlives L2's (one second of slack for the second boundary)
				if (a.Deadline == 0 && b.Deadline != 0) || (a.Deadline != 0 && b.Deadline != 0 && a.Deadline > b.Deadline+1) {
					res.V = &Violation{Prop: p.Prop, Rule: "l1_outlives_l2", Step: len(e.hist), Class: "l1_outlives_l2", Msg: fmt.Sprintf("when all commands had completed L1 held %q until %s, L2 only until %s: once L2's entry has expired L1 differs from L2; history: %s", k, deadlineStr(a.Deadline, w.Now()), deadlineStr(b.Deadline, w.Now()), describeHist(e.hist))}
					return
				}
			}
		}
		// reach probes from the lock log
		readers := map[string]int{}
		for _, ev := range w.Run.LockLog {
			switch ev.Op {
			case "rlock":
				readers[ev.Lock]++
				if readers[ev.Lock] >= 2 {
					res.probe("rlock_shared_by_2_readers")
				}
			case "runlock":
				readers[ev.Lock]--
			}
		}
	})
	return res, out
}

func deadlineStr(d, now int64) string {
	if d == 0 {
		return "forever"
	}
	return fmt.Sprintf("now%+ds", d-now)
}

func sortedKeys(m map[string]bool) []string {
	var ks []string
	for k := range m {
		ks = append(ks, k)
	}
	sortStrings(ks)
	return ks
}

func sortedKeysT(m map[string]tierEntry) []string {
	var ks []string
	for k := range m {
		ks = append(ks, k)
	}
	sortStrings(ks)
	return ks
}

func describeHist(h []*HistOp) string {
	s := ""
	for _, o := range h {
		s += fmt.Sprintf("c%d[%d,%d] %s -> %s; ", o.Conn, o.Call, o.Ret, o.Op, o.Obs.Status)
	}
	return s
}

func judgeC03(p Plan, res *Result, out c03Out) {
	if res.V != nil || res.Infra != "" {
		return
	}
	key, detail, unknown, bad := checkLinearizable(out.hist)
	if unknown > 0 {
		res.probe("porcupine_unknown")
	}
	if bad != "" {
		res.V = &Violation{Prop: p.Prop, Rule: "bad_reply", Step: len(out.hist), Class: "bad_reply", Msg: "a command was answered with something that is not a result of the map model: " + bad}
		return
	}
	if key != "" {
		res.V = &Violation{Prop: p.Prop, Rule: "not_linearizable", Step: len(out.hist), Class: "not_linearizable",
			Msg: fmt.Sprintf("the history of key %q is not linearizable w.r.t. the single-map model: %s", key, detail)}
	}
	res.probe("histories_checked")
}

func execC03(t *testing.T, p Plan, src kernel.Source) Result {
	if p.Mode == "dfs" {
		return dfsC03(t, p)
	}
	res, out := runC03Once(t, p, src)
	judgeC03(p, &res, out)
	return res
}

// dfsC03 explores every schedule of a tiny program depth first, up to a cap.
func dfsC03(t *testing.T, p Plan) Result {
	cap := int(p.X["dfs_cap"])
	var prefix []kernel.Choice
	runs := 0
	var last Result
	for {
		res, out := runC03Once(t, p, &kernel.PrefixSource{Prefix: prefix})
		judgeC03(p, &res, out)
		runs++
		last.KSteps += res.KSteps
		if res.V != nil || res.Infra != "" {
			res.Probes = map[string]int{"dfs_schedules": runs}
			res.KSteps = last.KSteps
			return res
		}
		prefix = kernel.NextPrefix(res.Trace)
		if prefix == nil {
			last.Probes = map[string]int{"dfs_schedules": runs, "dfs_programs_exhausted": 1}
			return last
		}
		if runs >= cap {
			last.Probes = map[string]int{"dfs_schedules": runs, "dfs_programs_capped": 1}
			return last
		}
	}
}

func (g *gen) concOp(proto string, keys []string, opq *uint32) wire.Op {
	*opq += 10
	op := wire.Op{Opaque: *opq}
	if proto == "text" {
		op.Opaque = 0
	}
	kinds := []string{"set", "set", "add", "replace", "append", "prepend", "delete", "touch", "get", "get", "mget"}
	if proto == "bin" {
		kinds = append(kinds, "gat", "gat")
	}
	k := pick(g, kinds)
	op.Key = pick(g, keys)
	switch k {
	case "set", "add", "replace":
		op.Kind = k
		op.Data = g.value(pick(g, []int{3, 5, 9}))
		op.Flags = uint32(g.n(4))
		op.TTL = pick(g, []uint32{0, 0, 0, 100, 2000})
	case "append", "prepend":
		op.Kind = k
		op.Data = g.value(pick(g, []int{3, 5}))
	case "delete", "touch", "gat":
		op.Kind = k
		if k != "delete" {
			// lifetimes that neither run out during a run nor count as absolute
			op.TTL = pick(g, []uint32{0, 50, 700, 3000})
		}
	case "get":
		op.Kind = "get"
		op.Keys = []string{op.Key}
		op.Quiets = []bool{false}
		op.Key = ""
	case "mget":
		op.Kind = "get"
		op.Key = ""
		n := 2 + g.n(2)
		for i := 0; i < n; i++ {
			op.Keys = append(op.Keys, pick(g, keys))
			op.Quiets = append(op.Quiets, proto == "bin")
		}
		if proto == "bin" {
			op.Noop = true
		}
	}
	return op
}

func genC03Plan(g *gen, seed uint64, nconn, maxOps int) Plan {
	c := stack.Cfg{L1: "std", L2: "std", GetEAbsolute: g.p(1, 2), Locked: true}
	c.Shape = pick(g, []string{"l1only", "l1l2", "l1l2", "l1l2batch", "l1l2batch"})
	c.MultiReader = g.p(1, 2)
	c.Concurrency = uint8(g.n(3))
	p := Plan{Prop: "C03", Seed: seed, Cfg: c, Seg: pick(g, []int{0, 0, 2})}
	keys := keyAlphabet[:1+g.n(2)]
	var opq uint32 = 100
	for i := 0; i < nconn; i++ {
		port := "main"
		if c.Shape == "l1l2batch" && (i == 1 || g.p(1, 3)) {
			port = "batch"
		}
		cs := ConnSpec{Port: port, Proto: pick(g, []string{"text", "bin"})}
		p.Conns = append(p.Conns, cs)
		var prog []wire.Op
		for j := 0; j < 1+g.n(maxOps); j++ {
			prog = append(prog, g.concOp(cs.Proto, keys, &opq))
		}
		p.Progs = append(p.Progs, prog)
	}
	p.X = map[string]int64{"sticky": int64(g.n(2))}
	// a third of the two-tier programs start from keys that are in L2 only (stored, then
	// evicted from L1), with a lifetime: reads then back-fill L1 while others change it
	if c.Shape != "l1only" && g.p(1, 3) {
		for _, k := range keys {
			if g.p(2, 3) {
				*(&opq) += 10
				op := wire.Op{Kind: "set", Key: k, Data: g.value(4), Flags: uint32(g.n(4)), TTL: pick(g, []uint32{0, 1000, 5000}), Opaque: opq}
				p.Steps = append(p.Steps, Step{Op: &op}, Step{Evict: []string{k}})
			}
		}
	}
	return p
}

func genC03(seed uint64, tier string) Plan {
	g := newGen(seed)
	if g.p(1, 5) {
		// larger randomly scheduled programs
		return genC03Plan(g, seed, 3+g.n(3), 5)
	}
	return genC03Plan(g, seed, 2+g.n(2), 3)
}

// enumC03: tiny programs (2 connections x 1 command, 1 key) explored by DFS.
func enumC03(tier string) []Plan {
	n, cap := 24, 1500
	if tier == "thorough" {
		n, cap = 300, 30000
	}
	var out []Plan
	for i := 0; i < n; i++ {
		g := newGen(uint64(0xC03000 + i))
		p := genC03Plan(g, uint64(0xC03000+i), 2, 1)
		p.Seg = 0
		p.Mode = "dfs"
		p.X = map[string]int64{"dfs_cap": int64(cap)}
		// one key, so that the two commands collide
		for ci := range p.Progs {
			for oi := range p.Progs[ci] {
				op := &p.Progs[ci][oi]
				if op.Key != "" {
					op.Key = "a"
				}
				for ki := range op.Keys {
					op.Keys[ki] = "a"
				}
			}
		}
		out = append(out, p)
	}
	// lifetime family: the key is in L2 only, with a long lifetime; one connection reads it
	// (and back-fills L1 with the lifetime it saw) while another one shortens the lifetime
	id := 0
	for _, mr := range []bool{true, false} {
		for _, other := range []wire.Op{
			{Kind: "gat", Key: "a", TTL: 50, Opaque: 210},
			{Kind: "touch", Key: "a", TTL: 50, Opaque: 220},
			{Kind: "set", Key: "a", Data: []byte("<9>N9"), TTL: 50, Opaque: 230},
		} {
			for _, gabs := range []bool{true, false} {
				id++
				if tier != "thorough" && id%2 == 0 {
					continue
				}
				set := wire.Op{Kind: "set", Key: "a", Data: []byte("<8>O8"), Flags: 1, TTL: 4000, Opaque: 100}
				p := Plan{Prop: "C03", Seed: uint64(0xC03800 + id), Mode: "dfs", X: map[string]int64{"dfs_cap": int64(cap)},
					Cfg:   stack.Cfg{Shape: "l1l2", L1: "std", L2: "std", GetEAbsolute: gabs, Locked: true, MultiReader: mr, Concurrency: 0},
					Conns: []ConnSpec{{Port: "main", Proto: "bin"}, {Port: "main", Proto: "bin"}},
					Steps: []Step{{Op: &set}, {Evict: []string{"a"}}},
					Progs: [][]wire.Op{{{Kind: "get", Keys: []string{"a"}, Quiets: []bool{false}, Opaque: 200}}, {other}}}
				out = append(out, p)
			}
		}
	}
	return out
}

func init() {
	register(&Prop{
		ID: "C03", Gen: genC03, Exec: execC03, Enumerate: enumC03,
		Nontrivial: func(p Plan, r Result) bool {
			// at least two connections address a common key
			seen := map[string]int{}
			for ci, prog := range p.Progs {
				ks := map[string]bool{}
				for _, op := range prog {
					if op.Key != "" {
						ks[op.Key] = true
					}
					for _, k := range op.Keys {
						ks[k] = true
					}
				}
				for k := range ks {
					seen[k] |= 1 << ci
				}
			}
			for _, m := range seen {
				if m&(m-1) != 0 {
					return true
				}
			}
			return false
		},
		Rule:      "client programs of 2-3 connections x 1-3 commands over 1-2 keys (plus, in a fifth of the runs, 3-5 connections x up to 5 commands), every command kind, connections split between main and batch port sharing one lock set, single- and multi-reader, concurrency exponent 0-2, with unique written values. All requests are available at once; the kernel chooses among lock grants (every Lock/RLock of package orcas parks), individual backend requests, reply segments and client sends, uniformly or depth-first-sticky. Enumerated part: 2-connection x 1-command programs on one key explored by depth-first search over the whole choice tree up to a cap (probes dfs_programs_exhausted / dfs_programs_capped say how many trees were completed). Oracle: porcupine linearizability per key against the map model on histories stamped with a kernel event counter, final reads by a fresh client, and at the end every L1 entry is in L2 with the same value and flags and does not outlive it. Commands carry lifetimes (0 or 50-5000 s, never running out during a run); a third of the two-tier programs, and an enumerated family (get vs gat/touch/set with a shorter lifetime, both lock modes), start from keys that a sequential prelude stored and evicted from L1. Non-trivial = two connections address a common key; distinct = distinct plan hash",
		Real:      realFullStack,
		Stub:      append(append([]string{}, stubFullStack...), "key locks: channel-based shadow of sync.Mutex/RWMutex whose grants are kernel events"),
		Assume:    []string{"porcupine v1.3.0 decides linearizability of the recorded histories; Unknown (timeout) is counted, never reported"},
		RaceTest:  "TestRaceLocked",
		RunsQuick: 4000, RunsThorough: 120000,
	})
}
