package props

import (
	"fmt"
	"io"
	"log"
	"runtime/debug"
	"strings"
	"testing"
	"testing/synctest"

	"rendsim/kernel"
	"rendsim/shadow/hub"
)

func init() {
	// rend logs every error path; keep the workers quiet
	log.SetOutput(io.Discard)
}

// inBubble executes body inside one synctest bubble with a fresh run and world.
// Kernel-side panics are simulator trouble (Infra), never violations.
func inBubble(t *testing.T, seed uint64, src kernel.Source, body func(w *kernel.World, res *Result)) (res Result) {
	ch := &kernel.Chooser{Src: src}
	defer func() {
		if r := recover(); r != nil {
			msg := fmt.Sprint(r)
			// leaked immortal goroutines (pool batcher/reader/monitor) are expected
			if !strings.Contains(msg, "blocked goroutines remain") && !strings.Contains(msg, "deadlock") {
				if res.Infra == "" {
					res.Infra = "panic outside bubble body: " + msg
				}
			}
		}
		res.Trace = ch.Trace
		res.SchedHash = traceHash(ch.Trace)
		if ts, ok := src.(*kernel.TraceSource); ok && ts.Div != "" {
			res.Diverged = ts.Div
		}
	}()
	synctest.Test(t, func(t *testing.T) {
		run := hub.Begin(seed)
		defer hub.End(run)
		w := kernel.NewWorld(run, ch)
		defer func() {
			if r := recover(); r != nil {
				res.Infra = fmt.Sprintf("kernel panic: %v\n%s", r, debug.Stack())
			}
			res.KSteps = w.Steps
			res.SimMs = int64(w.Stat.SimTime.Milliseconds())
			res.Fired = w.Stat.FaultsFired
			if w.LogEvents {
				res.Log = w.EventLog
			}
			func() {
				defer func() { recover() }()
				w.Teardown()
			}()
		}()
		body(w, &res)
	})
	return res
}
