package props

import (
	"fmt"
	"io"
	"log"
	"testing"
	"testing/synctest"

	"rendsim/kernel"
	"rendsim/shadow/hub"
	"rendsim/stack"
	"rendsim/wire"
)

func TestSmoke(t *testing.T) {
	log.SetOutput(io.Discard)
	for _, shape := range []string{"l1only", "l1l2", "l1l2batch"} {
		func() {
			defer func() {
				if r := recover(); r != nil {
					t.Logf("recovered: %v", r)
				}
			}()
			synctest.Test(t, func(t *testing.T) {
				run := hub.Begin(1)
				defer hub.End(run)
				ch := &kernel.Chooser{Src: kernel.NewRandSource(1)}
				w := kernel.NewWorld(run, ch)
				w.SegMode = 2
				w.LogEvents = true
				stack.Build(w, stack.Cfg{Shape: shape, L1: "std", L2: "std", GetEAbsolute: true}, nil)
				c := w.Connect("main")
				w.Settle()
				w.Send(c, wire.EncodeText(wire.Op{Kind: "set", Key: "abc", Data: []byte("hello"), Flags: 7, TTL: 0}))
				fmt.Printf("%s set -> %q\n", shape, c.Unread())
				c.Consume(len(c.Unread()))
				w.Send(c, wire.EncodeText(wire.Op{Kind: "get", Keys: []string{"abc", "zz"}}))
				fmt.Printf("%s get -> %q\n", shape, c.Unread())
				for _, l := range w.EventLog {
					fmt.Println("   ", l)
				}
				fmt.Println("steps", w.Steps, "tiers", len(w.Tiers))
				w.Teardown()
			})
		}()
	}
}
