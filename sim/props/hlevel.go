package props

import (
	"fmt"
	"os"
	"runtime/debug"

	"github.com/netflix/rend/common"
	"github.com/netflix/rend/handlers"

	"rendsim/kernel"
	"rendsim/wire"
)

// Handler-level simulation: the harness calls a real rend handler directly. Every
// call runs on its own goroutine inside the bubble (a "task"); the kernel moves the
// bytes between the handler and the simulated memcached.

// HRes is the outcome of one handler call.
type HRes struct {
	Err   error
	Hits  []ObsVal // get / gat hits
	Miss  []int    // get: indices reported as misses
	Exps  []uint32 // gete: expiry per hit (same order as Hits)
	Seq   []int    // get / gete: request indices in the order their answers (hit or miss) arrived
	Panic string
	Done  bool
}

func (r HRes) String() string {
	return fmt.Sprintf("{err=%v hits=%s miss=%v panic=%q done=%v}", r.Err, fmtVals(r.Hits), r.Miss, r.Panic, r.Done)
}

// spare returns a copy of k with spare capacity (as the text parser produces) or an exact slice.
func keyBytes(k string, spare bool) []byte {
	if spare {
		b := make([]byte, len(k), len(k)+24)
		copy(b, k)
		return b
	}
	return []byte(k)
}

// hcall performs op on h synchronously (to be run on a task goroutine).
func hcall(h handlers.Handler, op wire.Op, spare bool) (res HRes) {
	defer func() {
		if r := recover(); r != nil {
			res.Panic = fmt.Sprint(r)
			if os.Getenv("VERIF_PANIC_STACK") != "" {
				res.Panic += "\n" + string(debug.Stack())
			}
		}
		res.Done = true
	}()
	switch op.Kind {
	case "set", "add", "replace", "append", "prepend":
		req := common.SetRequest{Key: keyBytes(op.Key, spare), Data: append([]byte(nil), op.Data...), Flags: op.Flags, Exptime: op.TTL, Opaque: op.Opaque}
		switch op.Kind {
		case "set":
			res.Err = h.Set(req)
		case "add":
			res.Err = h.Add(req)
		case "replace":
			res.Err = h.Replace(req)
		case "append":
			res.Err = h.Append(req)
		case "prepend":
			res.Err = h.Prepend(req)
		}
	case "delete":
		res.Err = h.Delete(common.DeleteRequest{Key: keyBytes(op.Key, spare), Opaque: op.Opaque})
	case "touch":
		res.Err = h.Touch(common.TouchRequest{Key: keyBytes(op.Key, spare), Exptime: op.TTL, Opaque: op.Opaque})
	case "gat":
		r, err := h.GAT(common.GATRequest{Key: keyBytes(op.Key, spare), Exptime: op.TTL, Opaque: op.Opaque})
		res.Err = err
		if err == nil {
			if r.Miss {
				res.Miss = []int{0}
			} else {
				res.Hits = []ObsVal{{Idx: 0, Key: string(r.Key), Flags: r.Flags, Data: append([]byte(nil), r.Data...)}}
			}
		}
	case "get", "gete":
		req := common.GetRequest{}
		for i, k := range op.Keys {
			req.Keys = append(req.Keys, keyBytes(k, spare))
			if op.SameOpq {
				req.Opaques = append(req.Opaques, op.Opaque)
			} else {
				req.Opaques = append(req.Opaques, op.Opaque+uint32(i))
			}
			req.Quiet = append(req.Quiet, i < len(op.Quiets) && op.Quiets[i])
		}
		usedIdx := map[int]bool{}
		var curKey []byte
		idxOf := func(opq uint32) int {
			if !op.SameOpq {
				return int(opq - op.Opaque)
			}
			// text style: attribute by key, first occurrence not yet answered
			for i, k := range op.Keys {
				if !usedIdx[i] && k == string(curKey) {
					usedIdx[i] = true
					return i
				}
			}
			return -1
		}
		if op.Kind == "get" {
			rc, ec := h.Get(req)
			for rc != nil || ec != nil {
				select {
				case r, ok := <-rc:
					if !ok {
						rc = nil
						continue
					}
					curKey = r.Key
					ix := idxOf(r.Opaque)
					res.Seq = append(res.Seq, ix)
					if r.Miss {
						res.Miss = append(res.Miss, ix)
					} else {
						res.Hits = append(res.Hits, ObsVal{Idx: ix, Key: string(r.Key), Flags: r.Flags, Data: append([]byte(nil), r.Data...)})
					}
				case e, ok := <-ec:
					if !ok {
						ec = nil
						continue
					}
					res.Err = e
				}
			}
		} else {
			rc, ec := h.GetE(req)
			for rc != nil || ec != nil {
				select {
				case r, ok := <-rc:
					if !ok {
						rc = nil
						continue
					}
					curKey = r.Key
					ix := idxOf(r.Opaque)
					res.Seq = append(res.Seq, ix)
					if r.Miss {
						res.Miss = append(res.Miss, ix)
					} else {
						res.Hits = append(res.Hits, ObsVal{Idx: ix, Key: string(r.Key), Flags: r.Flags, Data: append([]byte(nil), r.Data...)})
						res.Exps = append(res.Exps, r.Exptime)
					}
				case e, ok := <-ec:
					if !ok {
						ec = nil
						continue
					}
					res.Err = e
				}
			}
		}
	}
	return res
}

// runTask executes op on h on a fresh goroutine and settles the world until the
// call has returned. ok=false means the call never returned (hang).
func runTask(w *kernel.World, h handlers.Handler, op wire.Op, spare bool) (HRes, bool) {
	var res HRes
	done := make(chan struct{})
	go func() {
		res = hcall(h, op, spare)
		close(done)
	}()
	w.KeepWaiting = func() bool {
		select {
		case <-done:
			return false
		default:
			return true
		}
	}
	w.Settle()
	select {
	case <-done:
		return res, true
	default:
		return res, false
	}
}

// errOutcome maps a handler error to the vocabulary of the reference map.
func errOutcome(err error) string {
	switch err {
	case nil:
		return "ok"
	case common.ErrKeyNotFound:
		return "notfound"
	case common.ErrKeyExists:
		return "exists"
	case common.ErrItemNotStored:
		return "notstored"
	}
	return "error:" + err.Error()
}
