package props

import (
	"bytes"
	"fmt"
	"strings"
	"testing"
	"time"

	"github.com/netflix/rend/handlers"
	"github.com/netflix/rend/handlers/memcached"
	"github.com/netflix/rend/handlers/memcached/batched"
	"github.com/netflix/rend/handlers/memcached/std"

	"rendsim/kernel"
	"rendsim/simnet"
	"rendsim/wire"
)

// C06 / C13 — the batching connection pool, handler level.
//
// N caller tasks, each with its own batched.Handler (as every client connection has
// in rend) on one shared pool, run scripted call sequences on private keys. The
// kernel chooses among: start of a caller's next call, the pooled connection a
// submit goes to (the pool's rand.Intn parks), individual backend requests, reply
// segments, dial completions, clock advances (batch delay expiry vs. full batch),
// and — for C13 — connection cuts and backend down/up.
//
// Baseline: the same per-caller sequence through the direct handler (std) on a
// second, identically prepared simulated memcached.

type poolCall struct {
	Op  wire.Op
	Res HRes
}

func sameResult(op wire.Op, a, b HRes) string {
	if m := terminatorLast(op, a); m != "" {
		return m
	}
	ea, eb := errOutcome(a.Err), errOutcome(b.Err)
	if strings.HasPrefix(ea, "error:") && strings.HasPrefix(eb, "error:") {
		// both failed: which error the pool reports after its retries, and how many replies
		// were handed over before it, is not part of the result
		return ""
	}
	if ea != eb {
		return fmt.Sprintf("pool returned %s, direct connection returned %s", ea, eb)
	}
	if len(a.Hits) != len(b.Hits) || len(a.Miss) != len(b.Miss) {
		return fmt.Sprintf("pool returned %d hits %d misses (%s), direct connection %d hits %d misses (%s)", len(a.Hits), len(a.Miss), fmtVals(a.Hits), len(b.Hits), len(b.Miss), fmtVals(b.Hits))
	}
	// which requests missed, not only how many; no request answered twice
	ma, mb := map[int]int{}, map[int]int{}
	for _, i := range a.Miss {
		ma[i]++
	}
	for _, i := range b.Miss {
		mb[i]++
	}
	for i, n := range ma {
		if mb[i] != n {
			return fmt.Sprintf("pool reported request #%d as a miss %d time(s), the direct connection %d time(s) (pool misses %v, direct %v)", i, n, mb[i], a.Miss, b.Miss)
		}
	}
	for _, v := range a.Hits {
		if ma[v.Idx] > 0 {
			return fmt.Sprintf("pool answered request #%d with a hit and with a miss", v.Idx)
		}
	}
	am := map[int]ObsVal{}
	for _, v := range a.Hits {
		if _, dup := am[v.Idx]; dup {
			return fmt.Sprintf("pool answered request #%d twice", v.Idx)
		}
		am[v.Idx] = v
	}
	for _, v := range b.Hits {
		x, ok := am[v.Idx]
		if !ok {
			return fmt.Sprintf("direct connection hit for request #%d (%q), pool did not answer it with a hit (pool hits %s)", v.Idx, v.Key, fmtVals(a.Hits))
		}
		if x.Key != v.Key {
			return fmt.Sprintf("request #%d: pool reply carries key %q, direct connection %q", v.Idx, x.Key, v.Key)
		}
		if x.Flags != v.Flags || !bytes.Equal(x.Data, v.Data) {
			return fmt.Sprintf("request #%d (%q): pool returned %s flags %d, direct connection %s flags %d", v.Idx, v.Key, short(x.Data), x.Flags, short(v.Data), v.Flags)
		}
	}
	return ""
}

// terminatorLast: a get shaped like a binary GETQ* GET batch (every key quiet but the
// last) ends, on the wire, with the answer to its last key; the orchestrators forward
// answers in the order the handler delivers them, so that answer must come last.
func terminatorLast(op wire.Op, r HRes) string {
	if (op.Kind != "get" && op.Kind != "gete") || op.SameOpq || len(op.Keys) < 2 || r.Err != nil {
		return ""
	}
	last := len(op.Keys) - 1
	for i := range op.Keys {
		q := i < len(op.Quiets) && op.Quiets[i]
		if (i < last) != q {
			return "" // not that shape
		}
	}
	for pos, ix := range r.Seq {
		if ix == last && pos != len(r.Seq)-1 {
			return fmt.Sprintf("the answer to the last, non-quiet key (#%d) arrived at position %d of %d: on the wire it ends the batch, and the answers delivered after it (requests %v) would be taken for replies to the next command", last, pos+1, len(r.Seq), r.Seq[pos+1:])
		}
	}
	return ""
}

type poolTask struct {
	name string
	h    handlers.Handler
	ops  []wire.Op
	next int
	busy bool
	res  HRes
	done chan struct{}
	out  []poolCall
	t0   time.Time // simulated time at which the current call started
	// cold start: construct starts the construction of the handler (nil once started);
	// constructing is closed when the handler exists (nil channel = constructed)
	construct    func()
	constructing chan struct{}
}

type poolEnv struct {
	p     Plan
	w     *kernel.World
	tier  *kernel.Tier
	tasks []*poolTask
	res   *Result
}

func (e *poolEnv) violate(rule, class, format string, a ...interface{}) {
	if e.res.V == nil {
		e.res.V = &Violation{Prop: e.p.Prop, Rule: rule, Class: rule + ":" + class, Msg: fmt.Sprintf(format, a...)}
	}
}

// harvest collects finished calls.
func (e *poolEnv) harvest() {
	for _, tk := range e.tasks {
		if !tk.busy {
			continue
		}
		select {
		case <-tk.done:
			tk.busy = false
			tk.out = append(tk.out, poolCall{Op: tk.ops[tk.next-1], Res: tk.res})
		default:
		}
	}
}

func (e *poolEnv) startEvents() []kernel.Event {
	var evs []kernel.Event
	for _, tk := range e.tasks {
		tk := tk
		if tk.busy || tk.next >= len(tk.ops) {
			continue
		}
		if tk.construct != nil {
			evs = append(evs, kernel.Event{Label: "construct " + tk.name, Owner: tk.name, Do: func() {
				c := tk.construct
				tk.construct = nil
				c()
			}})
			continue
		}
		if tk.constructing != nil {
			select {
			case <-tk.constructing:
				tk.constructing = nil
			default:
				continue
			}
		}
		evs = append(evs, kernel.Event{Label: "call " + tk.name, Owner: tk.name, Do: func() {
			op := tk.ops[tk.next]
			tk.next++
			tk.busy = true
			tk.t0 = time.Now()
			tk.done = make(chan struct{})
			go func() {
				e.w.Run.NameGoroutine(tk.name)
				tk.res = hcall(tk.h, op, false)
				close(tk.done)
			}()
		}})
	}
	return evs
}

func (e *poolEnv) anyBusy() bool {
	for _, tk := range e.tasks {
		if tk.busy {
			return true
		}
	}
	return false
}

func (e *poolEnv) anyConstructing() bool {
	for _, tk := range e.tasks {
		if tk.construct != nil {
			continue
		}
		if tk.constructing != nil {
			select {
			case <-tk.constructing:
			default:
				return true
			}
		}
	}
	return false
}

func (e *poolEnv) anyLeft() bool {
	for _, tk := range e.tasks {
		if tk.busy || tk.next < len(tk.ops) {
			return true
		}
	}
	return false
}

// drive runs until all tasks are finished. extra yields additional enabled events
// (faults). maxIdle bounds the simulated time that may pass with calls outstanding
// and nothing else enabled.
func (e *poolEnv) drive(extra func() []kernel.Event, tick time.Duration, maxIdle time.Duration) (ok bool, why string) {
	w := e.w
	idle := time.Duration(0)
	for {
		w.Quiesce()
		if w.Overrun {
			return false, "step budget exhausted"
		}
		e.harvest()
		if !e.anyLeft() {
			return true, ""
		}
		evs := append(w.Internal(), e.startEvents()...)
		if extra != nil {
			evs = append(evs, extra()...)
		}
		// the clock may always move while calls are outstanding (batch delay expiry)
		if e.anyBusy() || e.anyConstructing() {
			evs = append(evs, kernel.Event{Label: "tick", Do: func() { w.Advance(tick) }})
		}
		onlyTick := len(evs) == 1 && evs[0].Label == "tick"
		if len(evs) == 0 {
			return false, "nothing enabled"
		}
		if onlyTick {
			idle += tick
			if idle > maxIdle {
				var stuck []string
				for _, tk := range e.tasks {
					if tk.busy {
						stuck = append(stuck, fmt.Sprintf("%s %s", tk.name, tk.ops[tk.next-1]))
					}
				}
				return false, fmt.Sprintf("calls %v did not return within %v of simulated time although nothing else can happen", stuck, maxIdle)
			}
		} else {
			idle = 0
		}
		// choose; "tick" is the last alternative so that choice 0 is never a clock advance
		evs[w.Ch.Choose(len(evs), "event")].Do()
	}
}

// baseline runs one caller's sequence through the direct handler on its own backend.
func baseline(w *kernel.World, tierName string, ops []wire.Op) ([]poolCall, bool) {
	h := std.NewHandler(w.DialBackend(tierName, "base"))
	var out []poolCall
	saveI := w.Interleave
	w.Interleave = false
	defer func() { w.Interleave = saveI }()
	for _, op := range ops {
		r, ok := runTask(w, h, op, false)
		if !ok {
			return out, false
		}
		out = append(out, poolCall{Op: op, Res: r})
	}
	return out, true
}

func poolOpts(p Plan) batched.Opts {
	return batched.Opts{
		BatchSize:             uint32(p.X["batch_size"]),
		BatchDelayMicros:      uint32(p.X["batch_delay_us"]),
		ReadBufSize:           uint32(p.X["rbuf"]),
		WriteBufSize:          uint32(p.X["wbuf"]),
		EvaluationIntervalSec: uint32(p.X["eval_s"]),
	}
}

func setupPool(w *kernel.World, p Plan, res *Result) *poolEnv {
	w.LogEvents = p.X["log"] != 0
	w.Interleave = true
	w.ProcAll = false
	w.SegMode = p.Seg
	w.Run.ParkSubmit = true
	// the relay table's lock and the per-relay "add a connection" lock are kernel-granted:
	// callers that wait for the relay to come into being are released in a decided order
	w.Run.ManagePkgs = []string{"/handlers/memcached/batched"}
	e := &poolEnv{p: p, w: w, res: res}
	e.tier = w.AddTier("l1", fmt.Sprintf("/sim/run%d/pool.sock", w.Run.ID))
	base := w.AddTier("base", fmt.Sprintf("/sim/run%d/base.sock", w.Run.ID))
	// shared read-only keys, identical on both backends
	for i := 0; i < 3; i++ {
		k := fmt.Sprintf("shared%d", i)
		v := []byte(fmt.Sprintf("shared-value-%d", i))
		e.tier.Fake.Store.Set(k, v, uint32(70+i), 0)
		base.Fake.Store.Set(k, v, uint32(70+i), 0)
	}
	// keys the backend persistently refuses (busy): the same on both backends
	refuse := func(key string) uint16 {
		if strings.HasPrefix(key, "busy-") {
			return 0x85
		}
		return 0
	}
	e.tier.Fake.Refuse = refuse
	base.Fake.Refuse = refuse
	hc := memcached.Batched(e.tier.Addr, poolOpts(p))
	// the first handler construction creates the relay and its first connection; that
	// blocks on the dial, which the kernel has to release, so it runs on a task goroutine
	ready := make(chan struct{})
	if p.X["cold"] != 0 {
		// cold start: the backend does not accept connections yet and every caller
		// constructs its handler on its own goroutine (as every client connection does);
		// the first one creates the relay and waits for the pool's first connection
		e.tier.Up = false
		for i, prog := range p.Progs {
			tk := &poolTask{name: fmt.Sprintf("t%d", i), ops: prog}
			// the construction is an event of its own: which caller comes first (and creates
			// the relay) is the kernel's choice
			tk.construct = func() {
				tk.constructing = make(chan struct{})
				go func() {
					w.Run.NameGoroutine(tk.name)
					tk.h, _ = hc()
					close(tk.constructing)
				}()
			}
			e.tasks = append(e.tasks, tk)
		}
		close(ready)
	} else {
		go func() {
			for i, prog := range p.Progs {
				h, _ := hc()
				e.tasks = append(e.tasks, &poolTask{name: fmt.Sprintf("t%d", i), h: h, ops: prog})
			}
			close(ready)
		}()
	}
	w.Interleave = false
	w.Settle()
	w.Interleave = true
	select {
	case <-ready:
	default:
		res.Infra = "pool construction did not finish"
	}
	return e
}

func (e *poolEnv) compareWithBaseline(rule string) {
	for _, tk := range e.tasks {
		want, ok := baseline(e.w, "base", tk.ops)
		if !ok {
			e.res.Infra = "baseline run through the direct handler hung"
			return
		}
		for i := range tk.out {
			if i >= len(want) {
				break
			}
			if tk.out[i].Res.Panic != "" {
				e.violate("panic", tk.out[i].Op.Kind, "%s call #%d %s panicked: %s", tk.name, i, tk.out[i].Op, tk.out[i].Res.Panic)
				return
			}
			if m := sameResult(tk.out[i].Op, tk.out[i].Res, want[i].Res); m != "" {
				e.violate(rule, tk.out[i].Op.Kind, "%s call #%d %s: %s", tk.name, i, tk.out[i].Op, m)
				return
			}
		}
	}
}

func execC06(t *testing.T, p Plan, src kernel.Source) Result {
	return inBubble(t, p.Seed, src, func(w *kernel.World, res *Result) {
		e := setupPool(w, p, res)
		if res.Infra != "" {
			return
		}
		// growth prelude: a second of traffic per round lets the monitor add a connection
		// per round, so that the programs then run on a pool of several connections
		if n := int(p.X["grow"]); n > 0 {
			warm := &poolTask{name: "warm", h: e.tasks[0].h}
			saved := e.tasks
			e.tasks = []*poolTask{warm}
			for i := 0; i < n; i++ {
				warm.ops = append(warm.ops, wire.Op{Kind: "get", Keys: []string{"shared0"}, Quiets: []bool{false}, Opaque: uint32(900 + i)})
				ok, why := e.drive(nil, time.Duration(max(p.X["batch_delay_us"], int64(50)))*time.Microsecond, 3*time.Second)
				if !ok {
					e.violate("hang", "call", "growth prelude, round %d: %s", i, why)
					return
				}
				w.Advance(time.Duration(p.X["eval_s"])*time.Second + time.Millisecond)
				w.Interleave = false
				w.Settle()
				w.Interleave = true
			}
			e.tasks = saved
		}
		tick := time.Duration(max(p.X["batch_delay_us"], int64(50))) * time.Microsecond
		long := int(p.X["long_ticks"])
		extra := func() []kernel.Event {
			if long > 0 && e.anyBusy() {
				// lets the pool monitor (interval 1 s) run under load and grow the pool
				return []kernel.Event{{Label: "tick1s", Do: func() { long--; w.Advance(time.Second + time.Millisecond) }}}
			}
			return nil
		}
		ok, why := e.drive(extra, tick, 3*time.Second)
		if !ok {
			e.violate("hang", "call", "%s", why)
			return
		}
		res.probe(fmt.Sprintf("pool_conns_%d", min(len(e.tier.Conns), 8)))
		e.compareWithBaseline("differs")
	})
}

// ---- plan generation shared by C06 and C13 ----

func (g *gen) poolOp(caller int, keys []string, opq *uint32, allowAppend bool) wire.Op {
	*opq += 10
	op := wire.Op{Opaque: *opq}
	kinds := []string{"set", "set", "add", "replace", "delete", "touch", "get", "get", "mget", "mget", "gat", "gete"}
	if allowAppend {
		kinds = append(kinds, "append", "prepend")
	}
	k := pick(g, kinds)
	op.Key = pick(g, keys)
	switch k {
	case "set", "add", "replace":
		op.Kind = k
		op.Data = append([]byte(fmt.Sprintf("c%d:", caller)), g.value(pick(g, []int{8, 9, 40, 700, 3000}))...)
		op.Flags = g.flags()
		op.TTL = uint32(pick(g, []int{0, 0, 100}))
	case "append", "prepend":
		op.Kind = k
		op.Data = append([]byte(fmt.Sprintf("c%d+", caller)), g.value(pick(g, []int{8, 12}))...)
	case "delete":
		op.Kind = k
	case "touch", "gat":
		op.Kind = k
		op.TTL = uint32(pick(g, []int{0, 50}))
	case "get":
		op.Kind, op.Keys, op.Quiets, op.Key = "get", []string{op.Key}, []bool{false}, ""
	case "mget", "gete":
		op.Kind = "get"
		if k == "gete" {
			op.Kind = "gete"
		}
		op.Key = ""
		n := 2 + g.n(5)
		all := append(append([]string{}, keys...), "shared0", "shared1", "shared2", fmt.Sprintf("c%d-never", caller))
		if g.busy {
			all = append(all, fmt.Sprintf("busy-c%d", caller))
		}
		for i := 0; i < n; i++ {
			op.Keys = append(op.Keys, pick(g, all))
			op.Quiets = append(op.Quiets, g.p(1, 2))
		}
		if g.p(1, 3) {
			// duplicate a key on purpose
			op.Keys = append(op.Keys, op.Keys[0])
			op.Quiets = append(op.Quiets, g.p(1, 2))
		}
		if g.p(1, 3) {
			// the shape a binary GETQ* GET batch has: every key quiet but the last
			for i := range op.Quiets {
				op.Quiets[i] = i < len(op.Quiets)-1
			}
		}
		if g.p(1, 4) {
			// what the text parser hands to the handler: every key with opaque 0 and not
			// quiet, duplicates therefore indistinguishable
			op.SameOpq = true
			for i := range op.Quiets {
				op.Quiets[i] = false
			}
			if g.p(1, 2) {
				op.Keys = append(op.Keys, op.Keys[g.n(len(op.Keys))])
				op.Quiets = append(op.Quiets, false)
			}
		}
		*opq += uint32(len(op.Keys))
	}
	return op
}

func genPoolPlan(seed uint64, prop string, allowAppend bool) (Plan, *gen) {
	return genPoolPlanOpt(seed, prop, allowAppend, false)
}

func genPoolPlanOpt(seed uint64, prop string, allowAppend, busy bool) (Plan, *gen) {
	g := newGen(seed)
	g.busy = busy
	p := Plan{Prop: prop, Seed: seed, Seg: pick(g, []int{0, 0, 2})}
	p.X = map[string]int64{
		"batch_size":     int64(pick(g, []int{1, 2, 3, 5, 10, 16})),
		"batch_delay_us": int64(pick(g, []int{50, 250, 250, 1000, 5000})),
		"eval_s":         int64(pick(g, []int{1, 1, 1 << 28})),
		"rbuf":           int64(pick(g, []int{0, 0, 64, 4096})),
		"wbuf":           int64(pick(g, []int{0, 0, 64, 4096})),
		"long_ticks":     int64(pick(g, []int{0, 0, 1, 3})),
	}
	ncallers := pick(g, []int{1, 2, 3, 4, 8, 16})
	if g.p(1, 12) {
		ncallers = 32 + g.n(33)
	}
	maxOps := 6
	if ncallers > 8 {
		maxOps = 3
	}
	var opq uint32 = 1000
	for c := 0; c < ncallers; c++ {
		keys := []string{fmt.Sprintf("c%d-a", c), fmt.Sprintf("c%d-b", c)}
		var prog []wire.Op
		for j := 0; j < 1+g.n(maxOps); j++ {
			prog = append(prog, g.poolOp(c, keys, &opq, allowAppend))
		}
		p.Progs = append(p.Progs, prog)
	}
	return p, g
}

func genC06(seed uint64, tier string) Plan {
	g0 := newGen(seed ^ 0x60606)
	busy := g0.p(1, 3)
	p, _ := genPoolPlanOpt(seed, "C06", true, busy)
	if g0.p(1, 4) {
		// a grown pool: batch size 1 makes every second with traffic an overloaded one
		p.X["batch_size"] = 1
		p.X["eval_s"] = 1
		p.X["grow"] = int64(2 + g0.n(6))
	}
	if busy {
		// some single-key commands on a refused key as well
		for c := range p.Progs {
			if g0.p(1, 2) {
				k := fmt.Sprintf("busy-c%d", c)
				op := pick(g0, []wire.Op{
					{Kind: "get", Keys: []string{k}, Quiets: []bool{false}, Opaque: uint32(5000 + c)},
					{Kind: "set", Key: k, Data: []byte("never stored"), Opaque: uint32(5000 + c)},
					{Kind: "delete", Key: k, Opaque: uint32(5000 + c)},
					{Kind: "touch", Key: k, TTL: 10, Opaque: uint32(5000 + c)},
				})
				p.Progs[c] = append(p.Progs[c], op)
			}
		}
	}
	return p
}

var realPool = []string{"handlers/memcached/batched (Handler, relay, monitor, conn: batcher / reader / recoveryMonitor / reconnect)", "handlers/memcached.Batched constructor", "handlers/memcached/std (baseline)", "protocol/binprot"}
var stubPool = []string{"memcached backends (mcfake: one behind the pool, one behind the direct baseline handler)", "pooled and direct connections (simnet), dial (kernel-released)", "clock (testing/synctest)", "math/rand of the pool (connection choice parks; seeds from the deterministic crypto/rand stream)", "caller tasks (scripted)"}

func init() {
	register(&Prop{
		ID: "C06", Gen: genC06, Exec: execC06,
		Nontrivial: func(p Plan, r Result) bool { return len(p.Progs) > 1 },
		Rule:       "handler-level: 1-64 caller tasks, each with its own real batched.Handler on one real pool (relay, monitor, batcher, reader), run scripted sequences (every command kind, hit and miss variants, multi-key gets with duplicate keys and mixed quiet flags, gete) on private keys plus shared read-only keys; pool options drawn per run (batch size 1-16, batch delay 50 us-5 ms, monitor interval 1 s or off, read/write buffer 64 B-64 KiB); in a quarter of the runs a prelude of 2-7 seconds with traffic lets the monitor grow the pool to 3-8 connections first; in a third of the runs each caller also addresses a key that both backends persistently refuse with 'busy' (an error is a result too: after its retries the pool must report one whenever the direct connection does). The kernel chooses among call starts, the pooled connection each submit goes to, individual backend requests, reply segments, dial completions and clock ticks (batch-delay expiry vs. full batch). Oracle: every call's outcome, data, flags, per-request attribution (opaque/key) equals the same caller's sequence run through the direct handler on an identically prepared second backend; no call may block for 3 simulated seconds with nothing else enabled. Non-trivial = more than one caller; distinct = distinct plan hash",
		Real:       realPool,
		Stub:       stubPool,
		RunsQuick:  2500, RunsThorough: 60000, Chunk: 250,
	})
}

var _ = simnet.Open

// ---------------------------------------------------------------------------
// C13 — the pool survives loss of its backend connections.

// relaxedCheck is the per-call oracle while faults flow: an operation may fail, and
// an unacknowledged write may or may not have happened, but a call never returns
// another caller's data, never a value it did not write, and a multi-key get that
// reports no error has answered every key exactly once.
func relaxedCheck(caller int, call poolCall, wrote map[string]uint32) string {
	op, r := call.Op, call.Res
	if r.Panic != "" {
		return "panicked: " + r.Panic
	}
	prefix := []byte(fmt.Sprintf("c%d:", caller))
	if m := terminatorLast(op, r); m != "" {
		return m
	}
	if op.Kind == "get" || op.Kind == "gete" || op.Kind == "gat" {
		n := len(op.Keys)
		if op.Kind == "gat" {
			n = 1
		}
		seen := map[int]int{}
		for _, v := range r.Hits {
			seen[v.Idx]++
			wantKey := op.Key
			if op.Kind != "gat" {
				if v.Idx < 0 || v.Idx >= len(op.Keys) {
					return fmt.Sprintf("reply attributed to request #%d of a %d-key get", v.Idx, len(op.Keys))
				}
				wantKey = op.Keys[v.Idx]
			}
			if v.Key != wantKey {
				return fmt.Sprintf("reply for request #%d carries key %q, the request was for %q", v.Idx, v.Key, wantKey)
			}
			if bytes.HasPrefix([]byte(wantKey), []byte("shared")) {
				// read-only keys: exactly their own value and flags (shared<i> -> shared-value-<i>, 70+i)
				n := int(wantKey[len(wantKey)-1] - '0')
				if want := fmt.Sprintf("shared-value-%d", n); string(v.Data) != want || v.Flags != uint32(70+n) {
					return fmt.Sprintf("shared key %q returned %s flags %d, it holds %q flags %d", wantKey, short(v.Data), v.Flags, want, 70+n)
				}
				continue
			}
			if !bytes.HasPrefix(v.Data, prefix) {
				return fmt.Sprintf("key %q returned %s, which this caller never wrote (another caller's data?)", wantKey, short(v.Data))
			}
			fl, ok := wrote[string(v.Data)]
			if !ok {
				return fmt.Sprintf("key %q returned %s, which this caller never wrote", wantKey, short(v.Data))
			}
			if fl != v.Flags {
				return fmt.Sprintf("key %q returned flags %d with a value written with flags %d", wantKey, v.Flags, fl)
			}
		}
		for _, i := range r.Miss {
			seen[i]++
		}
		if r.Err == nil {
			if len(r.Hits)+len(r.Miss) != n {
				return fmt.Sprintf("a get of %d keys ended without error after %d hits and %d misses: a partial answer presented as complete", n, len(r.Hits), len(r.Miss))
			}
			for i, c := range seen {
				if c != 1 {
					return fmt.Sprintf("request #%d answered %d times", i, c)
				}
			}
		}
	}
	return ""
}

func execC13(t *testing.T, p Plan, src kernel.Source) Result {
	return inBubble(t, p.Seed, src, func(w *kernel.World, res *Result) {
		e := setupPool(w, p, res)
		if res.Infra != "" {
			return
		}
		tick := time.Duration(max(p.X["batch_delay_us"], int64(50))) * time.Microsecond
		w.Arm(p.Faults)
		cuts := int(p.X["cuts"])
		downs := int(p.X["downs"])
		downFor := time.Duration(p.X["down_ms"]) * time.Millisecond
		var downSince time.Time
		if p.X["cold"] != 0 {
			downSince = time.Now()
			w.Stat.FaultsFired["backend_down"]++
		}
		faultsLeft := func() int {
			n := cuts + downs
			n += len(e.tier.Faults)
			return n
		}
		extra := func() []kernel.Event {
			var evs []kernel.Event
			if !e.tier.Up {
				if time.Since(downSince) >= downFor {
					evs = append(evs, kernel.Event{Label: "backend up", Do: func() { e.tier.Up = true }})
				}
				return evs
			}
			if cuts > 0 {
				for _, b := range e.tier.Conns {
					b := b
					if b.Dead {
						continue
					}
					evs = append(evs, kernel.Event{Label: "cut " + b.C.Name, Do: func() {
						cuts--
						w.Stat.FaultsFired["cut_connection"]++
						silent := w.Ch.Bool(1, 2, "silent")
						w.KillBackend(b, silent)
					}})
					break // one cut event per step is enough (the first live connection); others via repetition
				}
			}
			if downs > 0 && e.anyBusy() {
				evs = append(evs, kernel.Event{Label: "backend down", Do: func() {
					downs--
					w.Stat.FaultsFired["backend_down"]++
					e.tier.Up = false
					downSince = time.Now()
					// a backend that goes down takes its connections with it
					for _, b := range e.tier.Conns {
						if !b.Dead {
							w.KillBackend(b, false)
						}
					}
				}})
			}
			return evs
		}
		// phase A: faults flow. No completion-time requirement beyond the outage itself.
		ok, why := e.drive(extra, tick, downFor+8*time.Second)
		if !ok {
			if faultsLeft() == 0 && e.tier.Up {
				e.violate("liveness", "after_faults", "all faults are over and the backend accepts connections, but %s", why)
			} else {
				e.violate("hang", "during_faults", "%s", why)
			}
			return
		}
		// per-call relaxed oracle
		for ci, tk := range e.tasks {
			wrote := map[string]uint32{}
			for _, op := range tk.ops {
				if op.Kind == "set" || op.Kind == "add" || op.Kind == "replace" {
					wrote[string(op.Data)] = op.Flags
				}
			}
			for i, c := range tk.out {
				if m := relaxedCheck(ci, c, wrote); m != "" {
					e.violate("wrong_result", c.Op.Kind, "%s call #%d %s: %s (result %s)", tk.name, i, c.Op, m, c.Res)
					return
				}
				if c.Res.Err != nil && !isBenign(c.Res.Err) {
					res.probe("calls_failed_with_error")
				}
			}
		}
		// phase B: faults are over and the backend accepts connections; a fresh
		// fault-free workload through the same pool must behave exactly like the
		// direct handler, within bounded simulated time.
		w.Disarm()
		e.tier.Up = true
		cuts, downs = 0, 0
		hc := memcached.Batched(e.tier.Addr, poolOpts(p))
		g := newGen(p.Seed ^ 0x5151)
		var fresh []*poolTask
		var opq uint32 = 900000
		for i := 0; i < 1+int(p.Seed%3); i++ {
			// constructed by the kernel goroutine itself: it must not park on the relay lock
			saved := w.Run.ManagePkgs
			w.Run.ManagePkgs = nil
			h, _ := hc()
			w.Run.ManagePkgs = saved
			keys := []string{fmt.Sprintf("f%d-a", i), fmt.Sprintf("f%d-b", i)}
			var prog []wire.Op
			for j := 0; j < 4; j++ {
				prog = append(prog, g.poolOp(1000+i, keys, &opq, false))
			}
			fresh = append(fresh, &poolTask{name: fmt.Sprintf("f%d", i), h: h, ops: prog})
		}
		e.tasks = fresh
		ok, why = e.drive(nil, tick, 5*time.Second)
		if !ok {
			e.violate("liveness", "fresh_workload", "after the faults stopped a fresh workload did not complete: %s", why)
			return
		}
		e.compareWithBaseline("after_recovery")
	})
}

func isBenign(err error) bool {
	switch errOutcome(err) {
	case "ok", "notfound", "exists", "notstored":
		return true
	}
	return false
}

func genC13(seed uint64, tier string) Plan {
	p, g := genPoolPlan(seed, "C13", false)
	p.X["long_ticks"] = 0
	// the pool iterates over a map with one entry per request of a batch when it fails
	// outstanding calls; iteration order is deterministic in simulation only for maps of
	// at most 8 entries (see cmd/mkoverlay), so batches are kept that small here
	if p.X["batch_size"] > 8 {
		p.X["batch_size"] = 8
	}
	total := 0
	for _, prog := range p.Progs {
		for _, op := range prog {
			if n := len(op.Keys); n > 0 {
				total += n
			} else {
				total++
			}
		}
	}
	nf := pick(g, []int{0, 1, 1, 2, 3})
	used := map[int]bool{}
	for i := 0; i < nf; i++ {
		idx := g.n(total + 1)
		if used[idx] {
			continue
		}
		used[idx] = true
		f := kernel.Fault{Tier: "l1", Index: idx, Silent: g.p(1, 2)}
		f.Kind = pick(g, []string{"close_before", "close_applied", "close_mid", "close_mid", "close_after"})
		if f.Kind == "close_mid" {
			f.Cut = pick(g, []int{1, 8, 23, 24, 25, 27, 28, 29, 40, 200})
		}
		p.Faults = append(p.Faults, f)
	}
	p.X["cuts"] = int64(pick(g, []int{0, 0, 1, 2, 4}))
	p.X["downs"] = int64(pick(g, []int{0, 0, 0, 1}))
	p.X["down_ms"] = int64(pick(g, []int{5, 150, 1200, 3000}))
	if len(p.Progs) >= 2 && g.p(1, 6) {
		// cold start: the backend is down while the callers construct their handlers
		p.X["cold"] = 1
	}
	if nf == 0 && p.X["cuts"] == 0 && p.X["downs"] == 0 && p.X["cold"] == 0 {
		p.X["cuts"] = 1
	}
	return p
}

func init() {
	register(&Prop{
		ID: "C13", Gen: genC13, Exec: execC13, Level: "fault_enumeration",
		Nontrivial: func(p Plan, r Result) bool {
			n := 0
			for _, v := range r.Fired {
				n += v
			}
			return n > 0
		},
		Rule:       "C06's set-up (1-64 callers on one real pool, drawn pool options) with faults: the pooled connection that carries backend request #i is closed before the request is applied, after it is applied but before the reply, after n bytes of the reply (n from {1, 8, 23, 24, 25, 27, 28, 29, 40, 200}: inside header, at its end, inside extras, inside the value), or after the reply (i drawn over the whole request stream, up to 3 such faults per run, EPIPE or silent write mode); up to 4 cuts of a live pooled connection at kernel-chosen instants (idle or busy); the backend going down (all connections lost, dials refused) for 5 ms-3 s and coming back; in a sixth of the runs with two or more callers a cold start: the backend refuses connections while every caller constructs its handler on its own goroutine, and comes up after 5 ms-3 s. While faults flow: no completion-time requirement; every call returns once with an error or with data this caller wrote (unique per caller, flags included), attributed to the right request, and a multi-key get without error has answered every key once; for gets shaped like a binary GETQ* GET batch (a third of the multi-key gets) the answer to the last, non-quiet key arrives last. After the last fault: outstanding calls complete within the outage plus 8 simulated seconds, then a fresh fault-free workload through the same pool completes within 5 simulated seconds and equals the direct-handler baseline. Fault positions are sampled, not exhaustively enumerated; non-trivial = at least one fault fired; distinct = distinct plan hash",
		Real:       realPool,
		Stub:       stubPool,
		FaultKinds: []string{"close_before", "close_applied", "close_mid", "close_after", "cut_connection", "backend_down"},
		RunsQuick:  2500, RunsThorough: 60000, Chunk: 250,
	})
}
